#!/bin/bash
# usage: tools/full_validation.sh <seed...>  -- the whole self-validation in one go (run it with `vp run`, so that it
# works from a committed snapshot while /verif is being edited): quick sweep on the unchanged tree at the given
# seeds, then every hand-written mutant and every seeded change against its check. Needs /repo clean and idle.
V="$(cd "$(dirname "$0")/.." && pwd)"
cd "$V" || exit 1
echo "== sweep"; tools/sweep.sh quick "$@"
echo "== mutants"; tools/mutant_matrix.sh > /dev/null; awk -F'\t' '{print $3}' mutants/RESULTS.tsv | sort | uniq -c; grep -v CAUGHT mutants/RESULTS.tsv
echo "== seeds"; tools/seed_matrix.sh > /dev/null; awk -F'\t' '{print $3}' seeded/RESULTS.tsv | sort | uniq -c; grep -v CAUGHT seeded/RESULTS.tsv
echo "== done"
