#!/bin/bash
# developer helper: build the harness test binary into /dev/shm/vh-dev (not used by registered checks)
export GOFLAGS=-mod=mod GOPROXY=off GOSUMDB=off GOTOOLCHAIN=local
D=/dev/shm/vh-dev; mkdir -p $D
rsync -a --delete --exclude .git /repo/ $D/repo/
mkdir -p $D/repo/internal/verifharness; cp /verif/harness/*.go $D/repo/internal/verifharness/
cd $D/repo && go1.26.8 mod edit -require=github.com/anishathalye/porcupine@v1.3.0 && go1.26.8 test -c -tags verif -vet=off $1 -o $D/vh.test ./internal/verifharness && echo built $D/vh.test
