#!/bin/bash
# usage: tools/sweep_some.sh <tier> <seed> <check ids...>   -- like sweep.sh for a subset of the checks
tier=$1; seed=$2; shift 2
cd "$(dirname "$0")/.." || exit 1
for p in "$@"; do
  out=$(timeout 3000 ./check $p --tier $tier --seed $seed --no-evidence 2>&1); rc=$?
  echo "seed=$seed $p rc=$rc $(echo "$out" | grep "$p $tier" | tail -1)"
  if [ $rc -ne 0 ]; then echo "$out" | grep -v "^KNOWN" | grep "VIOLATION\|INCONCLUSIVE\|->" | cut -c1-400 | head -8; fi
done
