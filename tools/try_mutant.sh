#!/bin/bash
# usage: tools/try_mutant.sh <patch-file> <ID> [tier] [seed]   -- applies the patch to /repo, runs the check, reverts.
V="$(cd "$(dirname "$0")/.." && pwd)"  # the /verif tree this script belongs to (a committed snapshot under vp run)
set -u
patch=$(readlink -f "$1"); id=$2; tier=${3:-quick}; seed=${4:-1}
cd /repo || exit 9
if ! git diff --quiet; then echo "/repo has uncommitted changes"; exit 9; fi
git apply "$patch" || { echo "patch does not apply"; exit 9; }
trap 'git -C /repo checkout -- . ; git -C /repo clean -fdq internal cmd' EXIT
cd "$V" && ./check "$id" --tier "$tier" --seed "$seed" --no-evidence
echo "exit=$?"
