#!/bin/bash
# Runs every seeded change against the check of its own property (quick tier) and writes seeded/RESULTS.tsv
V="$(cd "$(dirname "$0")/.." && pwd)"  # the /verif tree this script belongs to (a committed snapshot under vp run)
cd "$V" || exit 1
out=seeded/RESULTS.tsv; : > $out
for d in seeded/C*-*/; do
  name=$(basename $d); c=${name%%-*}
  [ -f $d/SUPERSEDED ] && { echo -e "$name\t$c\tSUPERSEDED\tneutralised by a later fix (see its meta.json)" >> $out; continue; }
  r=$(tools/seed_eval.sh $name $c 2>&1 | grep "^SEED")
  rc=$(echo "$r" | grep -o "rc=[0-9]*" | head -1)
  sig=$(echo "$r" | sed 's/.*first: *-> //' | cut -d'|' -f1 | cut -c1-80)
  case $rc in rc=1) v=CAUGHT;; rc=0) v=MISSED;; *) v=$rc;; esac
  echo -e "$name\t$c\t$v\t$sig" >> $out
done
cat $out
