"""Per-property configuration of the driver (test function, shards, level, evidence rule)."""

PROPS = {
    "C01": {
        "test": "TestC01", "level": "exploration", "registered": True, "engine": "sim",
        "technique": "runtime monitor over recorded probe/request/command events of the real router in virtual time (testing/synctest), generated probe histories",
        "level_text": "Generated probe histories x deadline placements x slots are executed against the real Router in a virtual-time bubble; an oracle over the fake targets' own logs (first accepted 2xx probe per target, arrival time of every client request) and the command result decides the property on each execution. Held-on-K-executions evidence, not a proof.",
        "level_note": "Trusted: go1.26.8 synctest clock and net.Pipe network, the fake targets' logs, harness generators. Ties (first success within 200ms of the deadline) are skipped and counted.",
        "shards_quick": 4, "shards_thorough": 16, "timeout": 900,
        "rule": "scenario = (old targets, 1-4 new targets each with a probe script {refuse,500,404,301,199,slow,close}^k then 200 or never, "
                "deploy timeout placed before/after the last first-success, slot active|rollout, client stream every ~40ms of virtual time); "
                "a class is (n-targets, script-shape multiset, deadline placement, slot, outcome); non-trivial = at least one new target had a failing probe "
                "or the command failed",
        "assumptions": ["go1.26.8 testing/synctest virtual clock; in-memory network (net.Pipe); probes via replaced http.DefaultClient",
                        "probe latencies are kept >= 2*eps away from the probe timeout and first-success instants away from the deploy deadline"],
    },
}

PROPS["C02"] = {
    "test": "TestC02", "level": "exploration", "registered": True, "engine": "sim",
    "shards_quick": 8, "shards_thorough": 16, "timeout": 900, "min_classes_quick": 60,
    "technique": "runtime monitor: hook-placed interleavings of request steps with deploy steps in virtual time; oracle over client responses",
    "level_text": "Every client request issued around 1-5 successive redeploys is placed (arrival offset + per-request virtual delays at the route-resolved and gate-passed hooks) against the hook-delayed steps of the real deploy command; the oracle demands status 200, a marker header naming a target of the old or new generation and that target's exact body. Evidence counts the distinct (resolve,gate,claim) gap triples actually observed.",
    "level_note": "Trusted: synctest clock, hook placement (hooks are outside locks), fake targets. Preconditions (all targets healthy, latencies below the drain timeout) hold by construction.",
    "rule": "a class is (slot, position of route-resolved / gate-passed / claim among the 7 deploy-side hook events); non-trivial = at least one request step fell strictly inside the deploy; requests generated on a grid arrival x d1 x d2",
    "assumptions": ["targets of both generations always healthy and faster than the drain timeout", "go1.26.8 synctest"],
}

ENGINES = [
    {"name": "sim", "path": "/verif/harness (world_test.go)", "kind_free_text": "real internal/server code in a testing/synctest bubble (virtual time) on an in-memory network with scripted fake targets and hook-placed delays; monitors judge recorded events", "serves_properties": []},
]

NOT_APPLICABLE = {}
