"""Per-property configuration of the driver (test function, shards, level, evidence rule)."""

PROPS = {
    "C01": {
        "stall_is_violation": True,
        "test": "TestC01", "level": "exploration", "registered": True, "engine": "sim",
        "technique": "runtime monitor over recorded probe/request/command events of the real router in virtual time (testing/synctest), generated probe histories",
        "level_text": "Generated probe histories x deadline placements x slots are executed against the real Router in a virtual-time bubble; an oracle over the fake targets' own logs (first accepted 2xx probe per target, arrival time of every client request) and the command result decides the property on each execution. Held-on-K-executions evidence, not a proof. Three scenarios run in real time on loopback targets (a probe in flight when the deploy deadline passes and answered 2xx afterwards): the outcome of the command and the targets' own request counts decide, never the clock.",
        "level_note": "Trusted: go1.26.8 synctest clock and net.Pipe network, the fake targets' logs, harness generators. Ties (first success within 200ms of the deadline) are skipped and counted.",
        "shards_quick": 4, "shards_thorough": 16, "timeout": 900,
        "rule": "scenario = (old targets, 1-4 new targets each with a probe script {refuse,500,404,301,199,slow,close}^k then 200 or never, ; gated family: + (gate paused|stopped, resume mid|after)"
                "deploy timeout placed before/after the last first-success, slot active|rollout, client stream every ~40ms of virtual time); "
                "a class is (n-targets, script-shape multiset, deadline placement, slot, outcome); non-trivial = at least one new target had a failing probe "
                "or the command failed",
        "assumptions": ["go1.26.8 testing/synctest virtual clock; in-memory network (net.Pipe); probes via replaced http.DefaultClient",
                        "probe latencies are kept >= 2*eps away from the probe timeout and first-success instants away from the deploy deadline"],
    },
}

PROPS["C02"] = {
    "test": "TestC02", "level": "exploration", "registered": True, "engine": "sim",
    "shards_quick": 8, "shards_thorough": 16, "timeout": 900, "min_classes_quick": 60,
    "technique": "runtime monitor: hook-placed interleavings of request steps with deploy steps in virtual time; oracle over client responses",
    "level_text": "Every client request issued around 1-5 successive redeploys is placed (arrival offset + per-request virtual delays at the route-resolved and gate-passed hooks) against the hook-delayed steps of the real deploy command; the oracle demands status 200, a marker header naming a target of the old or new generation and that target's exact body. Evidence counts the distinct (resolve,gate,claim) gap triples actually observed. One scenario runs in real time: three services are redeployed concurrently up to 500 times next to twenty bystander services while 16 clients call the router in-process; any answer that is not a target's is a violation, operators stuck for two minutes are judged from two goroutine dumps (deadlock/busy loop = violation, else inconclusive).",
    "level_note": "Trusted: synctest clock, hook placement (hooks are outside locks), fake targets. Preconditions (all targets healthy, latencies below the drain timeout) hold by construction.",
    "rule": "a class is (slot, position of route-resolved / gate-passed / claim among the 7 deploy-side hook events); non-trivial = at least one request step fell strictly inside the deploy; requests generated on a grid arrival x d1 x d2",
    "assumptions": ["targets of both generations always healthy and faster than the drain timeout", "go1.26.8 synctest"],
}

PROPS["C03"] = {
    "test": "TestC03", "level": "exploration", "registered": True, "engine": "sim",
    "shards_quick": 8, "shards_thorough": 16, "timeout": 900,
    "technique": "runtime monitor over target-side open/close logs, client outcomes and command return instants in virtual time; hook-placed late arrivals",
    "level_text": "Generated in-flight sets (early, late, never finishing, at the deadline, upgraded) x drain timeouts x commands are run against the real router in virtual time; the oracle reads the fake targets' own request logs (received/ended) against the exact return instant of the command, the clients' status and completion instants against the drain deadline, and the close instant of upgraded connections. Late arrivals are placed into every gap of the command with hook delays.",
    "level_note": "Trusted: synctest clock, fake-target logs (a target notices the proxy closing its connection at that virtual instant). Exact-time clauses use eps=100ms and are judged only in scenarios without injected delays; finishes within one step of the deadline are ties.",
    "rule": "a class is (command, n targets, rollout present, drain timeout, multiset of in-flight kinds, placed?); non-trivial = non-empty in-flight set or placed late arrivals",
    "assumptions": ["targets healthy", "go1.26.8 synctest"],
}

PROPS["C07"] = {
    "test": "TestC07", "level": "exploration", "registered": True, "engine": "sim",
    "shards_quick": 8, "shards_thorough": 16, "timeout": 900,
    "technique": "runtime monitor: per-service timeline model (state, max-pause, generation, split) judges every request's outcome and exact virtual completion instant",
    "level_text": "Random command histories (pause, repeated pause, resume, stop, redeploy, rollout deploy/set/stop at lattice instants) with 1-30 requests arriving anywhere are executed in virtual time; a timeline model built from the command log gives, per request, the set of allowed outcomes (forwarded at the resume instant to the side/generation current then, 503+message at the stop instant, 504 at arrival+max-pause, 200 by the proxy for health-path GETs) and the request as received by the target is compared with what was sent. Requests placed in the gate/claim window of a pause must not be refused.",
    "level_note": "Trusted: synctest clock, timeline model (written from the statement), eps=100ms; timer expiry within 2 eps of a release instant is a tie; for requests already held when pause is repeated either max-pause is accepted.",
    "rule": "a class is (n targets, sequence of command kinds, set of outcome kinds observed, placed?); non-trivial = at least one request was held longer than eps or was placed in a gate/claim window; plus gate-hammer classes (waiters) from the gate-level stop/pause alternation",
    "assumptions": ["targets healthy and instantaneous, so commands take no virtual time", "go1.26.8 synctest"],
}

PROPS["C09"] = {
    "test": "TestC09", "level": "exploration", "registered": True, "engine": "sim",
    "race": True, "race_is_violation": True, "race_only_matching": r"LoadBalancer|load_balancer\.go",
    "shards_quick": 8, "shards_thorough": 16, "timeout": 900,
    "technique": "runtime monitor over target-side probe and request logs in virtual time: health by latest completed probe, rotation windows, probe cadence; the monitor binary is built with the race detector and a report whose stacks touch the load balancer (the rotation state) is a violation",
    "level_text": "1-5 targets with generated post-deployment probe scripts (flapping, failure/slow/refuse/close windows, all failing with staggered recovery) are probed by the real health checks in virtual time while sequential bursts, concurrent batches and pause/resume episodes (whose drain spans probe completions) are issued between probes. The oracle recomputes each target's health from its own probe log and checks: no request at a target whose latest completed probe failed, 503 iff no target is healthy, floor/ceil fairness over every window of every constant-health run, and the probe cadence s(k+1) <= max(s(k)+interval, e(k)).",
    "level_note": "Trusted: synctest clock, fake-target logs. Requests within eps=100ms of a probe completion are ties. 'Keeps being probed' is restated as the cadence bound up to the end of the scenario.",
    "rule": "classes: (healthy-set size / n targets, run length) for every rotation run with >=2 healthy targets, and (multiset of probe patterns, pause episodes present); non-trivial = a rotation run over >= 2 healthy targets or a non-constant probe script",
    "assumptions": ["probe latencies are either instantaneous or 300ms beyond the probe timeout", "go1.26.8 synctest"],
}

PROPS["C17"] = {
    "stall_is_violation": True,
    "test": "TestC17", "level": "exploration", "registered": True, "engine": "sim",
    "shards_quick": 8, "shards_thorough": 16, "timeout": 900,
    "technique": "runtime monitor comparing exact virtual return instants of commands with bounds computed from target-side logs; probe logs watched after disposal",
    "level_text": "Histories of 1-10 commands over two services with hostile targets (refusing, failing or hanging on probes, healthy after k probes), in-flight sets (finishing, never finishing, upgraded) and timeouts from {0, 1ms, 1s, 30s} run in virtual time with inert hooks. The oracle bounds every return instant (deploy <= deploy+drain timeout and <= the instant its condition was met; failed deploy at the deploy timeout; pause/stop <= drain timeout and <= the last natural finish; other commands 0) and watches the fake targets' probe logs for 30 intervals after each disposal and after removing every service.",
    "level_note": "Trusted: synctest clock, fake-target logs; eps=100ms; first successes within 2 eps of the deploy deadline are ties. Overlapping commands (thorough tier only) are judged on the absolute bounds and the probe-leak clauses only.",
    "rule": "a class is (command kind, outcome, number of requests open at issue, never-finishing present, drain timeout | failure kind); non-trivial = every recorded class (a command that had to wait or fail)",
    "assumptions": ["go1.26.8 synctest"],
}

PROPS["C04"] = {
    "test": "TestC04", "level": "exploration", "registered": True, "engine": "sim",
    "shards_quick": 8, "shards_thorough": 16, "timeout": 900,
    "technique": "differential runtime check: real router vs an independent reference routing function over a host x path probe matrix, three construction orders incl. restart",
    "level_text": "Random conflict-free tables of 1-6 services (hosts from a collision-forcing alphabet incl. wildcards and the no-host default, prefixes with look-alikes, spelled as an operator might) are built three ways - random deploy order, another order with redeploys that move bindings, and restored from the state file - and each answers a 22-host x 26-path probe matrix sent as raw HTTP through the real server chain; every cell must equal a 20-line reference written from the statement. The thorough tier also enumerates every table of one or two single-binding services.",
    "level_note": "Trusted: the reference function, the fake targets' marker header. Hosts are lower-case; paths use unreserved characters only (decoded == raw).",
    "rule": "a class is the multiset of (hosts, prefixes) of the table; non-trivial = table with >= 2 services (or a table of the exhaustive small-scope part); overlap-then-restart classes: (mode, holder command kind, late command kind)",
    "assumptions": ["go1.26.8 net/http request parsing of the Host header"],
}

PROPS["C05"] = {
    "test": "TestC05", "level": "exploration", "registered": True, "engine": "sim",
    "shards_quick": 8, "shards_thorough": 16, "timeout": 900,
    "technique": "runtime monitor: sequential ownership-map oracle after every command, and porcupine linearizability check of recorded concurrent deploy/remove/lookup histories",
    "level_text": "Sequential histories of deploy/redeploy/remove over overlapping host and prefix lists (default host and wildcards included) are judged step by step against a reference ownership map (command result, list output, routing of a probe panel). Concurrent histories (2-6 clients, <= 36 operations, virtual jitter at the deploy hooks so that install points interleave) are recorded at the client boundary with a logical clock and checked with porcupine against the same sequential model; the final table is checked for doubly-owned pairs.",
    "level_note": "Trusted: porcupine v1.3.0, the 40-line ownership model, the reference routing function of C04. A porcupine timeout (60s) is inconclusive.",
    "rule": "classes: sequential (number of rejected conflicting deploys, number of redeploys that moved a service, length) and concurrent (clients, overlapping deploy pairs, length); non-trivial = at least one conflict or move (sequential) or at least one pair of deploys that overlapped in time (concurrent); mixed-* classes: the same for host lists that mix the default host with named and wildcard hosts",
    "assumptions": ["targets always healthy so that a deploy reaches its install point at once"],
}

PROPS["C06"] = {
    "test": "TestC06", "level": "fault_enumeration", "registered": True, "engine": "sim",
    "shards_quick": 8, "shards_thorough": 16, "timeout": 900,
    "technique": "runtime differential monitor: observable snapshot (routing, behaviour, list, state file) before vs after each failing command of every error class; probe logs watched after the failure",
    "level_text": "23 error classes (malformed target first/last/rollout, never healthy all/one/rollout/new service, unreadable or missing certificate, error-page directory missing/unparsable/empty, automatic TLS with a wildcard, host conflict by a new service and by a redeploy, unknown service for each of the seven commands, split without rollout targets) are each issued in configurations reached by random successful histories (2-13 commands over <= 4 services with options, pause/stop and rollout state varied). The failing redeploy carries changed options so that a partial application is visible. Oracle: the command reports an error, the ~100-key observable snapshot is identical before and after, and the rejected targets see no probe and no client request after the command returned (watched 40 virtual seconds).",
    "level_note": "Trusted: the snapshot panel (6 hosts x 6 paths, cookie panel, body sizes, slow request, TLS requests, list, parsed state file); classes are enumerated, configurations sampled.",
    "rule": "a class is (error class, number of services in the configuration, error text); every evaluation is a failing command in a non-empty configuration; flap-* error classes: targets that change health while the failing command is in progress",
    "assumptions": ["targets of the reached configuration are always healthy", "go1.26.8 synctest"],
}

PROPS["C08"] = {
    "test": "TestC08", "level": "exploration", "registered": True, "engine": "sim",
    "shards_quick": 8, "shards_thorough": 16, "timeout": 900,
    "technique": "runtime monitor: timeline model of running/paused/stopped decides every request's outcome; independent HTML-escaping oracle on the 503 body",
    "level_text": "Histories of stop / pause / resume / deploy / rollout commands with hostile stop messages (markup, template syntax, quotes, entities, NUL, 4-byte UTF-8, 64 KiB) run with and without custom error pages (with a 503 template, without one) while GET/POST/HEAD requests to the health path, look-alikes and other paths arrive at lattice instants. The timeline model gives the allowed outcome; a 503 body must be the right page with a fragment that contains no markup characters and unescapes to the message; the targets' logs show that nothing was forwarded while stopped.",
    "level_note": "Trusted: timeline model, html.UnescapeString as the inverse of escaping (the code's escaper is not reused); NUL is compared as U+FFFD.",
    "rule": "a class is (error-page variant, sequence of command kinds, number of distinct messages rendered); non-trivial = at least one request was answered while the service was stopped; hammer / gate-hammer classes: (targets, clients | waiters) of the stop/pause alternations",
    "assumptions": ["targets healthy and instantaneous"],
}

PROPS["C10"] = {
    "test": "TestC10", "level": "exploration", "registered": True, "engine": "sim", "race_pass": {"env": {"VERIF_C10_ONLY_KIND": "concurrent"}, "shards": 4}, "race_is_violation": True, "race_only_matching": r"RolloutController|rollout_controller\.go",
    "shards_quick": 8, "shards_thorough": 16, "timeout": 900,
    "technique": "runtime monitor with metamorphic oracles over observed routing decisions (stickiness, monotonicity in the percentage, allowlist, share) and a history model for set/stop/redeploy",
    "level_text": "For generated well-formed cookie values all 101 percentages are set one after the other on the real router and the side that answered is observed: the same answer on repetition, included at p implies included at every p' > p, included at 100, allowlisted values always on the rollout side, requests without the cookie always active. Over 5000 (thorough 20000) random 16-hex values the included share at 13 percentages must be within 3 points. Hostile Cookie headers are judged by the metamorphic relations only. Histories of rollout deploy / set / stop / redeploy are judged by an exact model (100%, 0%+allowlist).",
    "level_note": "Trusted: fake targets' marker header. Inclusion is observed, never recomputed from the code's hash. Share tolerance +-3 points (FNV is not binomial). Empty cookie values are not generated.",
    "rule": "classes: grid (allowlist size, decile of values included by 50%), share (percentage), history (first six commands), hostile; non-trivial = all (each evaluates >= 4000 routing decisions or a command history); side-outage (side, all?, fault, split, windows, command in the middle, unserved?)",
    "assumptions": ["go1.26.8 net/http cookie parsing; headers rejected by net/http with 400 are outside the proxy"],
}

PROPS["C11"] = {
    "test": "TestC11", "level": "exploration", "registered": True, "engine": "sim",
    "shards_quick": 8, "shards_thorough": 16, "timeout": 1200,
    "technique": "runtime differential monitor (bisimulation by testing): observable snapshot of the original proxy vs a proxy restored from its state file, then the same continuation on both",
    "level_text": "Random histories of 1-15 commands over <= 4 multi-host, multi-path, multi-target services with every option varied (static certificate, wildcard hosts, sub-path services, custom error pages, buffering limits, forward headers, timeouts, health-check path/interval, header logging, pause/stop with message and max-pause, rollout targets and split). After a restart point (3 per history in quick, every prefix in thorough) a fresh router restores the file the original wrote at that point; its ~110-key observable snapshot (routing matrix with echoed URI and forwarded headers, cookie panel, body-size panel, slow request vs target timeout, requests over TLS, health-path requests, list, parsed state file, probe path and cadence seen by the targets) must equal the original's, the history's own next 1-8 commands must return the same results on it without panicking, and the snapshots must agree again afterwards.",
    "level_note": "Trusted: snapshot panel; targets always healthy (the stated licence). The health-check timeout is compared through the re-saved state file only. Commands run under recover(): a panic is a violation (it would kill the real process).",
    "rule": "a class is (kind of the last command before the restart, kind of the first command after it, number of services saved); every restart point is an evaluation of the restore path on a non-empty history; outage classes: (last command, targets unhealthy when saved, unhealthy at the restart, recovers afterwards)",
    "assumptions": ["go1.26.8 synctest", "static certificate generated by the harness; automatic TLS not exercised (no network)"],
}

PROPS["C16"] = {
    "test": "TestC16", "level": "exploration", "registered": True, "engine": "sim",
    "shards_quick": 8, "shards_thorough": 16, "timeout": 900,
    "technique": "runtime monitor: policy table recomputed from the final set of services (reference routing of C04) judges plain and TLS requests, redirect targets and certificate decisions, across build orders and restore",
    "level_text": "Configurations of root-path services (TLS off / static certificate with and without redirect / automatic) and sub-path services over exact, wildcard and default hosts are built in different orders (random, sub-path first, root TLS flipped after the sub-path exists, root removed, restored from the state file). Plain requests (Host with ports, paths with encoded octets and //evil prefixes, hostile queries) must get exactly 301 to https://host-without-port + raw path + raw query without reaching a target when the effective policy is TLS+redirect, and be forwarded otherwise; requests over a real TLS handshake on the in-memory listener must fail the handshake for names without a TLS-enabled root-path service, get 503 from services whose effective TLS is off and be forwarded otherwise; GetCertificate is also called directly; automatic TLS with a wildcard host must be refused; no connection to the ACME directory may be attempted when no automatic-TLS service exists. One scenario runs in real time (8 clients, 6 operators deploying and removing other services, 4 s): every plain-HTTP request to a sub-path service below a TLS+redirect root is answered by the redirect.",
    "level_note": "Trusted: reference routing, harness-generated static certificate. Automatic-TLS issuance cannot run offline: for ACME services only the refusal of unbound names is decided. IPv6-literal Host headers are not generated (redirect target not fixed by the statement).",
    "rule": "a class is (build order, kind of decision observed: redirect / plain forwarded / handshake refused / 503 over TLS / forwarded over TLS, root or sub-path service); reserved-path classes: (namespace, decision, root?, what answers in front)",
    "assumptions": ["multi-host sub-path services are not generated (the statement says 'its host')"],
}

PROPS["C13"] = {
    "test": "TestC13", "level": "exploration", "registered": True, "engine": "sim",
    "shards_quick": 8, "shards_thorough": 16, "timeout": 900,
    "technique": "runtime monitor: byte-level comparison of the client's send log with the echo target's receive log (and vice versa) through the full handler chain",
    "level_text": "Generated requests (10 methods incl. unknown ones, paths over pchar with valid %XX escapes, encoded slashes, repeated and trailing slashes, the prefix as a later segment and the bare prefix, raw queries with unparseable pairs, header sets of 0-30 headers with repeated names, empty values, obs-text and 8 KiB values, bodies to 256 KiB with either framing, client-supplied X-Forwarded-*, X-Request-ID, X-Request-Start, over plain and TLS connections) are sent as raw bytes through the real server chain to a raw echo target that records exactly what it received and answers a generated response (22 statuses, multi-valued headers, bodies to 200 KB, three framings, gzip only if the request it received asks for it). Oracle: equality of method, path (less the literal prefix when stripping), raw query, Host, every end-to-end header's value list, body; forwarding headers per the stated policy; X-Request-ID kept or fresh and unique; status, every target header's value list and body bytes on the way back; no header added. One scenario runs in real time (32 clients, the whole handler chain in-process, about 100 000 requests): the X-Request-Id values collected at two loopback targets are unique, never missing, and the client's own where it sent one.",
    "level_note": "Trusted: raw reader/writer of the harness. Excluded by rule: hop-by-hop headers, header-name case, Content-Length vs chunked framing, optional whitespace around header values, headers net/http adds when the target sent none (Date, Content-Type, Content-Length). Harness stdlib is go1.26.8 (production go1.24.2).",
    "rule": "a class is (service kind, method, escapes in path, query present, body present, chunked, status class, response framing)",
    "assumptions": ["paths within RFC 3986 pchar + valid escapes; absolute-form targets and OPTIONS * not generated"],
}

PROPS["C14"] = {
    "test": "TestC14", "level": "fault_enumeration", "registered": True, "engine": "sim+binary", "need_bin": True,
    "shards_quick": 8, "shards_thorough": 16, "timeout": 900,
    "technique": "exhaustive small-scope enumeration of the exported Buffer (black-box spill-file size oracle in a private TMPDIR) plus end-to-end runtime monitor in virtual time with every way a request can end",
    "level_text": "Part 1 enumerates every (memory limit 0-6, total limit unlimited or 1-8, body 0-10 bytes, every composition of the body into write chunks up to 8 bytes) for both the writer and the reader variant of the real Buffer: acceptance iff within the limit, bytes read back equal bytes written, after every single chunk the spill file holds at least accepted-minus-memory-limit bytes (so no more than the memory limit is in memory) and exists only when needed, and TMPDIR is empty after Close. Part 2 drives request/response buffering end to end (sizes at limit-1/limit/limit+1, 1-5 chunks with virtual gaps, all four buffering combinations) through endings success, request overflow (413, target not contacted), response overflow (500, none of the body), target closing before answering, target truncating, client aborting upload or download, event stream and upgrade: exact bodies, target contacted only after the client's last body byte, client served only after the target's last body byte, first SSE event delivered while the stream is open, spill-size bound observed at the target and at the client, TMPDIR empty afterwards.",
    "level_note": "Trusted: file sizes reported by the OS for the unbuffered spill file; net.Pipe writes block until read (the proxy is still inside Send when the client sees the first body byte). The unit part is exhaustive for the stated scope; the end-to-end part is sampled.",
    "rule": "unit classes: (body vs memory limit, body vs total limit, chunk count, variant); end-to-end classes: (buffering combination, ending, request/response over limit, request/response spilled)",
    "assumptions": ["TMPDIR is private to the scenario (os.TempDir reads the environment per call)"],
    "exhaustive_quick": True, "exhaustive_thorough": True,
}

PROPS["C15"] = {
    "stall_is_violation": True,
    "test": "TestC15", "level": "fault_enumeration", "registered": True, "engine": "sim", "race_pass": {"env": {"VERIF_C15_ONLY": "burst"}, "shards": 3}, "race_is_violation": True, "race_only_matching": r"ErrorPageMiddleware|error_page_middleware\.go",
    "shards_quick": 8, "shards_thorough": 16, "timeout": 900,
    "technique": "fault enumeration at every point of the target connection in virtual time; raw client parser as well-formedness oracle; exact virtual instants for 502/504",
    "level_text": "Sequences of 1-6 faults on one service - dial refused, close at once, close inside the status line, garbage, close inside the header block (each immediately or after a delay), silence, header block stalled past the target timeout, answer 300ms before / 300ms after / within one step of the timeout, and after the header block: short Content-Length body, close inside a chunk, close between chunks - with a healthy request after each, in all four buffering combinations and with no / 502-only / 504-only / both custom pages. Oracle: for early faults a syntactically complete response (raw parser, declared length = actual) with 502 at the failure instant or 504 at exactly sent+target-timeout, rendered from the right page; for late faults the client's parse must fail (never complete-looking); afterwards the service answers, a pause with a 30s drain returns in 0 virtual time, and the bubble drains.",
    "level_note": "Trusted: raw parser; eps=100ms; answers within 200ms of the timeout are ties (status 200 or 504 accepted). Mid-body stalls are not bounded by any configured timeout and are not generated. TCP RST is not reproducible on the in-memory network.",
    "rule": "a class is (fault kind, delayed?, buffering combination, custom pages variant)",
    "assumptions": ["go1.26.8 net/http transport error mapping (production go1.24.2)"],
}

PROPS["C19"] = {
    "test": "TestC19", "level": "exploration", "registered": True, "engine": "sim",
    "shards_quick": 8, "shards_thorough": 16, "timeout": 900,
    "technique": "runtime monitor joining the captured access log with client-side and target-side records on a client-chosen request id",
    "level_text": "Every way a request can end is generated through the full chain with the real logging middleware writing JSON records into a captured logger: served (GET/POST/PUT/DELETE/HEAD, sizes 0 to 1 MiB, with and without buffering), 404, HTTPS redirect, 503 on TLS for a plain service, paused-out 504, stopped 503, target 502 / 504 / truncated body, 413, 500 on response overflow, client abort while waiting, during download and during upload, upgrade. Joined on the client's X-Request-ID the oracle demands exactly one record; method, host, path, query, service (reference: the service bound to the host) and target (the fake target that logged the request, none otherwise); status and resp_content_length equal to what the client received for complete responses; 499 for a client that left while the target was working; 101 for upgrades; configured request/response header fields (mixed-case names, repeated, absent) equal to the values sent.",
    "level_note": "Trusted: captured slog JSON output, client and target logs. For responses cut short and for aborts during upload/download only 'exactly one record' is demanded (the statement does not fix the status). For 413/502/504 the record may name the claimed target or none.",
    "rule": "a class is (ending, method, response size, number of configured header fields); cut-* / abort-download-at classes: (status, bytes sent, in chunk?, event stream?, delay, buffered?, status reached the client?)",
    "assumptions": ["go1.26.8 net/http"],
}

PROPS["C12"] = {
    "test": "TestC12", "level": "fault_enumeration", "registered": True, "engine": "sim+binary", "need_bin": True,
    "shards_quick": 8, "shards_thorough": 16, "timeout": 1200,
    "technique": "crash-point enumeration: bytes on disk at every hooked step boundary restored into a fresh router (virtual time), real SIGKILL of the binary at hook points, and hook-free SIGKILL injected by strace at the state-file syscalls; currency check after sequential and overlapping commands",
    "level_text": "Part A: for every command of random histories the state file's bytes are captured at every snapshot / deploy / gate hook (what SIGKILL at that step boundary would leave), restored into a fresh router and compared, as an observable configuration, with the configuration before and after the command: it must be one of the two, and after the command returned it must be the one then in force; pairs of commands on different services run concurrently with their snapshot steps interleaved by per-occurrence hook delays and the file must be current once both returned. Part B: the real binary (built with the repository's toolchain and -tags verif) kills itself with SIGKILL at a chosen hook point during each kind of command; after a restart `list` and the parsed state file must equal the reference universe's pre or post state. Part C: the untagged binary is run under strace, which delivers SIGKILL at the first write to the state file or to its temporary file, at the first rename, at the first fsync.",
    "level_note": "Trusted: hook placement at the step boundaries of the snapshot writer; the writer has no user-space buffering, so bytes read at a hook are what a kill there leaves in the page cache; power loss (data not yet on stable storage) is outside what SIGKILL exercises. strace's when=1 counts per thread: only the first matching syscall after a fresh start is used.",
    "rule": "classes: (part, command kind, crash point or syscall, file observed as pre or post); non-trivial = crash point of a command whose pre and post configurations differ (sim) / a real crash injection",
    "assumptions": ["strace and ptrace are available in the sandbox (otherwise part C is reported inconclusive)"],
}

PROPS["C20"] = {
    "test": "TestC20", "level": "exploration", "registered": True, "engine": "sim+binary", "need_bin": True,
    "shards_quick": 8, "shards_thorough": 16, "timeout": 1200,
    "technique": "black-box runtime check of the built binary: decision tables enumerated, outcomes observed from logs, a connection-counting fake socket, exit statuses and the printed table",
    "level_text": "The binary built from the working tree (repository toolchain) is exercised as a user would. (1) `run`: for http-port, https-port and debug the full table {flag absent/present} x {KAMAL_PROXY_<NAME> absent/valid/malformed} x {<NAME> absent/valid/malformed} (63 cases incl. an explicit --debug=false) is run and the effective value is read from the 'Server started' record, or from the bind error when a privileged default cannot be bound, and from the presence of debug-level records. (2) `deploy` validation: all 192 combinations (thorough; a 60-case subset incl. every TLS combination in quick) of --tls, --host, --path-prefix {none,/,/api}, the two body limits and the two buffering flags are run against a fake unix socket that counts connections: refused combinations must exit non-zero without a connection, valid ones must connect. (3) exit status of every client command for success, every server-side error and a proxy that is not running. (4) after random histories `list` rows (ANSI stripped) must equal a model of the deployed services (hosts, paths, targets, state, TLS).",
    "level_note": "Trusted: the decision table written from the statement; the fake socket. The run-option and exit-code tables are enumerated completely in both tiers; the deploy-validation table completely in the thorough tier.",
    "rule": "a class is one row of a decision table (run option x source combination; validation flag combination; command x outcome) or a (services, history length) pair for list; run-spelling rows: (option, flag?, kind:spelling of the prefixed variable, kind:spelling of the bare variable)",
    "assumptions": ["free TCP ports can be found; privileged default ports may or may not be bindable (both handled)"],
}

PROPS["C18"] = {
    "stall_is_violation": True,
    "test": "TestC18", "level": "exploration", "registered": True, "engine": "live", "race": True, "race_is_violation": True, "handler_panic_is_violation": True,
    "shards_quick": 8, "shards_thorough": 16, "timeout": 1500, "min_classes": 10,
    "technique": "Go race detector over a repeated real-concurrency stress (real sockets, 16 cores, hook jitter), crash attribution by journal, bounded-progress epilogue with goroutine-dump classifier",
    "level_text": "Per run a real Server on loopback with 6-12 real HTTP targets (flapping health endpoints, upgrade echo, slow paths), 16-55 clients (plain, cookie-bearing, POST, slow, upgraded) and 3-6 operators issuing every command (deploy with changing hosts/options/TLS, sub-path deploys that inherit TLS, rollout deploy/set/stop, pause, stop, resume, remove, list) on three service names, probe interval 5-20ms, random jitter at the hook points; 16 runs of 2.5s in quick, 200 in thorough, built with -race. A race report whose two stacks both contain repository frames is a violation (deduplicated by the innermost repository frame pair); a panic kills the child and is attributed by the journal; after each stress a fixed epilogue (list, resume, deploy, request, remove) must complete within a 60s watchdog, otherwise the goroutine dump decides between deadlock (violation) and inconclusive.",
    "level_note": "Trusted: the Go race detector (reports only races that occur in the executions produced); dump classifier. 'Never deadlocks' is restated as bounded progress. A race without repository frames would be a harness defect and makes the run inconclusive.",
    "rule": "a class is a pair of command kinds observed in flight at the same time; evidence also counts commands by kind, requests by status, upgraded connections, hook events and race reports before/after deduplication",
    "assumptions": ["go1.26.8 race detector; real time, real TCP on loopback"],
}

ENGINES = [
    {"name": "live", "path": "/verif/harness (c18_test.go)", "kind_free_text": "real Server on loopback TCP with real HTTP targets and clients, built with -race, random jitter at hook points; race reports parsed from GORACE logs by tools/racelog.py", "serves_properties": ["C18"]},
    {"name": "sim+binary", "path": "/verif/harness (c12_test.go, c20_test.go, procs_test.go)", "kind_free_text": "the real kamal-proxy binary built from the working tree with the repository's own toolchain, run with scratch HOME/XDG_RUNTIME_DIR against real HTTP targets; SIGKILL at hook points (VERIF_CRASH) or injected by strace; CLI driven as a user would", "serves_properties": ["C12", "C14", "C20"]},
    {"name": "sim", "path": "/verif/harness (world_test.go)", "kind_free_text": "real internal/server code in a testing/synctest bubble (virtual time) on an in-memory network with scripted fake targets and hook-placed delays; monitors judge recorded events", "serves_properties": []},
]

NOT_APPLICABLE = {}
