#!/bin/bash
# Offline setup: warm the Go build cache for the harness toolchain (std with and without -race). Builds nothing that is kept.
export GOFLAGS=-mod=mod GOPROXY=off GOSUMDB=off GOTOOLCHAIN=local
cd /verif || exit 1
chmod +x check tools/*.sh tools/*.py 2>/dev/null
go1.26.8 build std >/dev/null 2>&1 || true
go1.26.8 build -race std >/dev/null 2>&1 || true
exit 0
