#!/bin/bash
# usage: tools/seed_eval.sh <seeded-dir-name> <check ids...>   e.g. tools/seed_eval.sh C02-a C02 C03
# Applies seeded/<name>/patch.diff to /repo, runs the given checks (quick tier, VERIF_SEED or 1), reverts.
V="$(cd "$(dirname "$0")/.." && pwd)"  # the /verif tree this script belongs to (a committed snapshot under vp run)
set -u
name=$1; shift
cd /repo || exit 9
if ! git diff --quiet; then echo "/repo has uncommitted changes"; exit 9; fi
git apply $V/seeded/$name/patch.diff || { echo "patch does not apply"; exit 9; }
trap 'git -C /repo checkout -- . ; git -C /repo clean -fdq internal cmd' EXIT
cd "$V"
for c in "$@"; do
  out=$(timeout 1500 ./check $c --tier ${TIER:-quick} --seed ${VERIF_SEED:-1} --no-evidence 2>&1); rc=$?
  echo "SEED $name CHECK $c rc=$rc $(echo "$out" | grep -c '^VIOLATION') violation lines; first: $(echo "$out" | grep -m1 -- '->' | cut -c1-220)"
done
