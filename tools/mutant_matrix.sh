#!/bin/bash
# Runs every hand-written mutant in mutants/ against its check(s) (quick tier) and writes mutants/RESULTS.tsv.
# Mapping: Cxx-*.diff -> check Cxx; revert-fix-* -> the checks listed below.
V="$(cd "$(dirname "$0")/.." && pwd)"  # the /verif tree this script belongs to (a committed snapshot under vp run)
cd "$V" || exit 1
declare -A MAP=(
 [revert-fix-Da-healthy-before-rotation]="C02" [revert-fix-Db-lb-successor]="C02 C03 C07" [revert-fix-Dc-gate-recheck]="C03 C07"
 [revert-fix-Dd-restored-pause-channel]="C11" [revert-fix-De-restored-empty-rollout-lb]="C11" [revert-fix-Df-dispose-on-conflict]="C17 C06"
 [revert-fix-Dgh-atomic-snapshot]="C12" [revert-fix-Di-strip-rawpath]="C13" [revert-fix-Dj-disable-compression]="C13"
 [revert-fix-Dk-subpath-certmanager]="C11" [revert-fix-Dl-probe-during-drain]="C09" [revert-fix-Dn-tls-without-host]="C20"
 [revert-fix-Do-rollout-target-options]="C11" [revert-fix-Dp-request-buffer-close]="C14" [revert-fix-Dq-buffered-informational-status]="C13" [revert-fix-Ds-ipv6-host-with-port]="C04" [revert-fix-Dt-first-deploys-pause-state]="C08" [revert-fix-Dv-held-request-release-outcome]="C07 C08" [revert-fix-Dr1-pausecontroller-marshal]="C18"
 [revert-fix-Dr2-4-service-accessors]="C18" [revert-fix-Dr5-hijacked-atomic]="C18" [revert-fix-Dr7-log-header-copy]="C18" [revert-fix-Dm-install-under-lock]="C17" )
out=mutants/RESULTS.tsv; : > $out
for f in mutants/*.diff; do
  name=$(basename $f .diff)
  checks=${MAP[$name]:-}
  [ -z "$checks" ] && checks=$(echo $name | grep -o '^C[0-9][0-9]')
  [ -z "$checks" ] && { echo -e "$name\t-\tSKIP(no mapping)" >> $out; continue; }
  cd /repo; git diff --quiet || { echo "/repo dirty"; exit 9; }
  if ! git apply --check $V/$f 2>/dev/null; then echo -e "$name\t$checks\tDOES-NOT-APPLY" >> $V/$out; cd "$V"; continue; fi
  git apply $V/$f
  if ! GOPROXY=off go build ./... 2>/dev/null; then echo -e "$name\t$checks\tDOES-NOT-BUILD" >> $V/$out; git checkout -- .; cd "$V"; continue; fi
  cd "$V"
  for entry in $checks; do
    c=${entry%%:*}; tier=quick; [ "$entry" != "$c" ] && tier=${entry#*:}
    o=$(timeout 2500 ./check $c --tier $tier --seed ${VERIF_SEED:-1} --no-evidence 2>&1); rc=$?
    sig=$(echo "$o" | grep -m1 -- '->' | sed 's/^ *-> //' | cut -d'|' -f1 | cut -c1-90)
    case $rc in 1) v=CAUGHT;; 0) v=MISSED;; *) v="rc=$rc";; esac
    echo -e "$name\t$c\t$v\t$sig" >> $out
  done
  git -C /repo checkout -- .
done
cat $out
