#!/usr/bin/env python3
"""Regenerate /verif/MANIFEST.json from tools/props.py (registered checks) and properties.jsonl."""
import json, os, sys, subprocess
V = os.path.dirname(os.path.dirname(os.path.abspath(__file__)))
sys.path.insert(0, os.path.join(V, "tools"))
from props import PROPS, ENGINES, NOT_APPLICABLE

ids = [json.loads(l)["id"] for l in open(os.path.join(V, "properties.jsonl"))]
hook_commits = subprocess.run(["git", "-C", "/repo", "log", "--format=%H %s"], capture_output=True, text=True).stdout.splitlines()
hook_commits = [l.split()[0] for l in hook_commits if l.split(" ", 1)[1].startswith("verif:")]
checks = []
for pid in ids:
    c = PROPS.get(pid)
    if not c or not c.get("registered"):
        continue
    checks.append({
        "property_id": pid,
        "quick_cmd": "./check %s --tier quick" % pid,
        "thorough_cmd": "./check %s --tier thorough" % pid,
        "evidence_file": "/verif/evidence/%s.json" % pid,
        "replay_cmd_template": "./check %s --replay {path}" % pid,
        "engine": c.get("engine", "sim"),
        "level_claimed": {"category": c["level"], "text": c["level_text"], "design_ref": "DESIGN.md section 4, " + pid},
        "level_note": c["level_note"],
        "technique": c["technique"],
    })
claimed = {c["property_id"] for c in checks}
na = []
for pid in ids:
    if pid not in claimed:
        na.append({"property_id": pid, "reason": NOT_APPLICABLE.get(pid, "monitor not built yet (runtime-monitoring check planned in DESIGN.md section 4); not claimed until it exists")})
m = {
    "version": 1,
    "setup_cmd": "./tools/setup.sh",
    "hooks": {"guard": "verif", "enable": "go build/test -tags verif (checks copy /repo's working tree to a scratch dir and build there with go1.26.8)",
              "baseline_off_cmd": "cd /repo && GOPROXY=off go test -vet=off -count=1 -timeout 25m ./...",
              "source_commits": hook_commits, "add_only": True},
    "engines": ENGINES,
    "checks": checks,
    "notes": "Runtime monitoring only (DESIGN.md). Exit codes of every command: 0 held on what was observed, 1 violation (VIOLATION line), 2 inconclusive (INCONCLUSIVE line). Known findings: KNOWN_FINDINGS.jsonl.",
    "not_applicable": na,
}
json.dump(m, open(os.path.join(V, "MANIFEST.json"), "w"), indent=1)
print("checks:", len(checks), "not claimed:", len(na))
