#!/bin/bash
# usage: tools/seed_eval_scratch.sh <seeded-dir-name> <check ids...>
# Like seed_eval.sh, but leaves /repo alone: the change is applied in a scratch worktree of /repo HEAD and the
# checks are pointed at it with VERIF_REPO (used while /repo is busy with a matrix or a sweep; the results that
# are recorded in seeded/RESULTS.tsv come from seed_eval.sh / seed_matrix.sh run against /repo itself).
set -u
name=$1; shift
wt=/dev/shm/se-$name
git -C /repo worktree remove --force $wt 2>/dev/null
git -C /repo worktree add -q --detach $wt HEAD || exit 9
trap 'git -C /repo worktree remove --force '$wt EXIT
git -C $wt apply /verif/seeded/$name/patch.diff || { echo "patch does not apply"; exit 9; }
cd /verif
for c in "$@"; do
  out=$(VERIF_REPO=$wt timeout 1500 ./check $c --tier ${TIER:-quick} --seed ${VERIF_SEED:-1} --no-evidence 2>&1); rc=$?
  echo "SEED $name CHECK $c rc=$rc $(echo "$out" | grep -c '^VIOLATION') violation lines; first: $(echo "$out" | grep -m1 -- '->' | cut -c1-220)"
done
