#!/usr/bin/env python3
"""usage: tools/seed_meta.py <ID-variant> <wave text> <change> <needs_to_manifest> <caught_by> [demo files...]
Writes seeded/<ID-variant>/meta.json in the format of the earlier waves (after tools/seed_intake.sh confirmed the change)."""
import json, sys, os, subprocess, glob
name, wave, change, needs, caught = sys.argv[1:6]
d = f'/verif/seeded/{name}'
demos = sorted(os.path.relpath(p, d) for p in glob.glob(d + '/demo/**/*', recursive=True) if os.path.isfile(p))
head = subprocess.run(['git', '-C', '/repo', 'rev-parse', '--short', 'HEAD'], capture_output=True, text=True).stdout.strip()
meta = {
 "id": name, "property": name.split('-')[0], "change": change, "needs_to_manifest": needs,
 "author": f"independent sub-agent given only the property text and a scratch worktree ({wave})",
 "base_commit": f"/repo {head}",
 "confirmed": {"existing_suite_passes_with_change": True, "demonstration_fails_with_change": True,
               "demonstration_passes_without_change": True,
               "how": "tools/seed_intake.sh in a fresh scratch worktree of /repo HEAD"},
 "demonstration": demos, "caught_by": [caught], "checked_with": f"tools/seed_eval.sh {name} <checks>",
}
json.dump(meta, open(d + '/meta.json', 'w'), indent=1)
print('wrote', d + '/meta.json')
