#!/usr/bin/env python3
"""usage: tools/seed_prompt.py <ID> <variant>   -> writes /tmp/seed/<ID>-<variant>.prompt and creates the scratch
worktree /tmp/seed/<ID>-<variant> (detached at /repo HEAD). The prompt contains only the property's text (title,
statement, quantified-over), the rules of the exercise, and one-line descriptions of the mechanisms of earlier
seeded changes for the same property (so that a new one differs). Nothing from /verif is given to the sub-agent."""
import json, sys, os, subprocess, glob
pid, var = sys.argv[1], sys.argv[2]
props = {}
for line in open('/verif/properties.jsonl'):
    line = line.strip()
    if line:
        p = json.loads(line); props[p['id']] = p
p = props[pid]
wt = f"/tmp/seed/{pid}-{var}"
os.makedirs('/tmp/seed', exist_ok=True)
subprocess.run(['git', '-C', '/repo', 'worktree', 'remove', '--force', wt], capture_output=True)
subprocess.run(['git', '-C', '/repo', 'worktree', 'add', '-q', '--detach', wt, 'HEAD'], check=True)
prev = []
for m in sorted(glob.glob(f'/verif/seeded/{pid}-*/meta.json')):
    prev.append(json.load(open(m))['change'])
title = p.get('title') or p.get('name') or ''
stmt = p.get('statement') or p.get('description') or ''
quant = p.get('quantifier') or ''
if isinstance(quant, dict):
    quant = quant.get('text', '')
prevtxt = ''
if prev:
    prevtxt = ("Previous, independent attempts at this task changed:\n" + ''.join(f"  - {c}\n" for c in prev) +
               "Do something of a DIFFERENT kind: another code site and another mechanism (for instance a different step of the same command, a different data path, a different error path, a different configuration option, or a timing/ordering aspect), so that your change has little in common with those.\n\n")
txt = f"""You are helping to test a verification setup by playing a careless-but-plausible developer. You work ONLY inside the git worktree {wt} (a checkout of the Go project basecamp/kamal-proxy, a small HTTP reverse proxy for zero-downtime deploys). Do not read or touch anything outside that directory (in particular nothing under /verif or /repo).

The project is supposed to satisfy this property:

TITLE: {title}

STATEMENT: {stmt}

QUANTIFIED OVER: {quant}

YOUR TASK: make a change to the production code (non-test .go files under internal/ or cmd/) that BREAKS this property, while the code still compiles and the existing test suite still passes (`cd {wt} && GOPROXY=off go test -vet=off -count=1 ./...` ; note: the pre-existing test TestTarget_CancelledRequestsHaveStatus499 is flaky and fails in roughly 1 run out of 10 regardless of your change - ignore that one). The change must look like something a real developer could plausibly write (a refactor, an "optimisation", a misplaced condition, an off-by-one, a forgotten case) - not sabotage with random conditions. IMPORTANT: it must need something SPECIFIC to manifest - a particular interleaving, a fault at a particular point, a multi-step sequence of operations, an unusual input, or two cooperating code sites that each look fine alone - NOT something that ordinary use (or the existing tests) would expose at once.

{prevtxt}Rules:
- Do not edit existing *_test.go files. Do not touch files named verif_on.go / verif_off.go and do not remove or move lines that call verifPoint(...) or verifTransport(...) (instrumentation hooks; leave them where they are, with the tag off they are no-ops).
- Work offline: always use `GOPROXY=off go ...`. Do not commit; leave your change as uncommitted modifications in the worktree.
- Also write a DEMONSTRATION: a new Go test file (for example internal/server/seeded_demo_test.go, package server) or a small program that FAILS with your change and PASSES without it (verify both: do NOT use `git stash` - it is shared between worktrees; instead `git diff > my.patch; git apply -R my.patch`, run the demo on the unmodified code, then `git apply my.patch` again, and delete my.patch). Name the test functions TestSeeded... . The demonstration may use real time and the helpers in internal/server/testing.go.
- Write {wt}/SEEDED.md explaining: which files/lines you changed, why this breaks the property, what exactly is needed for the breakage to manifest, and the exact command that runs your demonstration.

When done, reply with a short summary: files changed, the demonstration file and command, and what is needed to manifest. Keep the change small (ideally under 25 changed lines).
"""
open(f'/tmp/seed/{pid}-{var}.prompt', 'w').write(txt)
print(wt, len(prev), 'previous')
