"""Parse Go race-detector logs: split into reports, normalise, deduplicate."""
import re

REPO_PKG = "github.com/basecamp/kamal-proxy/internal/"
HARNESS = "internal/verifharness"


def _frames(block):
    """Return the list of stacks; each stack is a list of function names (innermost first)."""
    stacks, cur = [], None
    for line in block.splitlines():
        if re.match(r"^(Read|Write|Previous read|Previous write|Atomic|Previous atomic)", line.strip()) or line.startswith("Goroutine "):
            cur = {"head": line.strip(), "funcs": []}
            stacks.append(cur)
        elif cur is not None and line.startswith("  ") and not line.startswith("      ") and "(" in line:
            fn = line.strip()
            fn = fn[:fn.rfind("(")] if "(" in fn else fn
            cur["funcs"].append(fn)
    return stacks


def _inner_repo(funcs):
    for f in funcs:
        if REPO_PKG in f and "verifharness" not in f:
            return re.sub(r"\.func\d+(\.\d+)*$", "", f.replace("github.com/basecamp/kamal-proxy/internal/", "").replace("(*", "").replace(")", ""))
    return None


def parse_text(text):
    reports = []
    for block in re.split(r"(?m)^={18}\n", text):
        if "WARNING: DATA RACE" not in block:
            continue
        stacks = _frames(block)
        acc = [s for s in stacks if not s["head"].startswith("Goroutine")]
        a = _inner_repo(acc[0]["funcs"]) if len(acc) > 0 else None
        b = _inner_repo(acc[1]["funcs"]) if len(acc) > 1 else None
        # A report counts against the repository when at least one of the two racing accesses
        # happens under a repository frame: data handed to the proxy's API by a caller must be
        # published safely by the API's own locking. Only a report with no repository frame on
        # either side is a defect of the harness.
        repo = a is not None or b is not None
        a = a or (acc[0]["funcs"][0] if acc and acc[0]["funcs"] else "?")
        b = b or (acc[1]["funcs"][0] if len(acc) > 1 and acc[1]["funcs"] else "?")
        a = a.replace("github.com/basecamp/kamal-proxy/internal/", "")
        b = b.replace("github.com/basecamp/kamal-proxy/internal/", "")
        pair = sorted([a, b])
        reports.append({"sig": pair[0] + " <-> " + pair[1], "repo_frames": repo, "text": block})
    return reports


def parse_files(files):
    dedup = {}
    for f in files:
        try:
            text = open(f, errors="replace").read()
        except OSError:
            continue
        for r in parse_text(text):
            d = dedup.setdefault(r["sig"], {"sig": r["sig"], "repo_frames": r["repo_frames"], "text": r["text"], "count": 0})
            d["count"] += 1
    return sorted(dedup.values(), key=lambda r: r["sig"])
