#!/bin/bash
# usage: tools/seed_intake.sh <ID> <variant> [demo-run-regex]
# Takes the uncommitted change and the demonstration an independent sub-agent left in /tmp/seed/<ID>-<variant>,
# stores them under /verif/seeded/<ID>-<variant>/ and re-confirms in a fresh scratch worktree that
#   (1) the existing suite passes with the change, (2) the demonstration fails with it, (3) passes without it.
set -u
id=$1; v=$2; rx=${3:-TestSeeded}
src=/tmp/seed/$id-$v; dst=/verif/seeded/$id-$v; chk=/tmp/seedcheck-$id-$v
mkdir -p $dst
git -C $src diff > $dst/patch.diff
[ -s $dst/patch.diff ] || { echo "EMPTY PATCH"; exit 2; }
cp $src/SEEDED.md $dst/SEEDED.md 2>/dev/null
mkdir -p $dst/demo
(cd $src && git ls-files --others --exclude-standard | grep -v '^SEEDED.md$\|^bin/' | while read f; do mkdir -p $dst/demo/$(dirname $f); cp $f $dst/demo/$f; done)
ls -R $dst/demo | head -20
git -C /repo worktree remove --force $chk 2>/dev/null; git -C /repo worktree add -q --detach $chk HEAD || exit 3
cd $chk
demo_files=$(cd $dst/demo && find . -type f | sed 's|^\./||')
for f in $demo_files; do mkdir -p $(dirname $f); cp $dst/demo/$f $f; done
echo "--- demo WITHOUT the change (must pass)"
GOPROXY=off go test -vet=off -count=1 -run "$rx" ./... 2>&1 | grep -v "no test files" | tail -3; r_without=${PIPESTATUS[0]}
git apply $dst/patch.diff || { echo "PATCH DOES NOT APPLY"; exit 4; }
echo "--- demo WITH the change (must fail)"
GOPROXY=off go test -vet=off -count=1 -run "$rx" ./... 2>&1 | grep -v "no test files" | tail -4; r_with=${PIPESTATUS[0]}
echo "--- existing suite WITH the change (must pass; known flake: TestTarget_CancelledRequestsHaveStatus499)"
for f in $demo_files; do rm -f $f; done
ok=0; for i in 1 2 3; do out=$(GOPROXY=off go test -vet=off -count=1 ./... 2>&1); if [ $? -eq 0 ]; then ok=1; break; fi; echo "$out" | grep -- "--- FAIL" | head -3; done
echo "RESULT id=$id-$v demo_without=$r_without demo_with=$r_with suite_ok=$ok"
cd /; git -C /repo worktree remove --force $chk
