#!/bin/bash
# usage: tools/seed_reconfirm.sh <seed-name> [demo-run-regex]
# Re-confirms a stored seeded change against /repo HEAD in a scratch worktree (used after a seed was ported
# to a newer base): demo passes without it, fails with it, existing suite passes with it.
set -u
n=$1; rx=${2:-TestSeeded}; dst=/verif/seeded/$n; chk=/tmp/seedcheck-$n
git -C /repo worktree remove --force $chk 2>/dev/null; git -C /repo worktree add -q --detach $chk HEAD || exit 3
cd $chk
demo_files=$(cd $dst/demo && find . -type f | sed 's|^\./||')
for f in $demo_files; do mkdir -p $(dirname $f); cp $dst/demo/$f $f; done
tags=""; grep -lq "go:build verif" $(for f in $demo_files; do echo $dst/demo/$f; done) 2>/dev/null && tags="-tags verif"
GOPROXY=off go test $tags -vet=off -count=1 -run "$rx" ./... >/tmp/seedcheck-$n.out 2>&1; r_without=$?
git apply $dst/patch.diff || { echo "PATCH DOES NOT APPLY"; cd /; git -C /repo worktree remove --force $chk; exit 4; }
GOPROXY=off go test $tags -vet=off -count=1 -run "$rx" ./... >/tmp/seedcheck-$n.out 2>&1; r_with=$?
grep -- "--- FAIL" /tmp/seedcheck-$n.out | head -3
for f in $demo_files; do rm -f $f; done
ok=0; for i in 1 2 3; do out=$(GOPROXY=off go test -vet=off -count=1 ./... 2>&1); if [ $? -eq 0 ]; then ok=1; break; fi; echo "$out" | grep -- "--- FAIL" | head -3; done
echo "RESULT id=$n demo_without=$r_without demo_with=$r_with suite_ok=$ok"
cd /; git -C /repo worktree remove --force $chk; rm -f /tmp/seedcheck-$n.out
