#!/usr/bin/env python3
"""Rewrites the generated tables of DESIGN.md (between the BEGIN/END markers) from mutants/RESULTS.tsv,
seeded/RESULTS.tsv, seeded/*/meta.json, tools/props.py and evidence/*.json."""
import json, os, sys, glob, re
V = os.path.dirname(os.path.dirname(os.path.abspath(__file__)))
sys.path.insert(0, os.path.join(V, "tools"))
from props import PROPS

def rows(path):
    out = []
    if os.path.exists(path):
        for l in open(path):
            f = l.rstrip("\n").split("\t")
            if len(f) >= 3:
                out.append(f + [""] * (4 - len(f)))
    return out

sec8 = []
waves = sorted({os.path.basename(os.path.dirname(d)).split("-")[1] for d in glob.glob(os.path.join(V, "seeded/C*-*/meta.json"))})
sec8.append("### 8.1 Independently seeded changes (%d waves, -%s to -%s, one change per property and wave)\n" % (len(waves), waves[0], waves[-1]))
sec8.append("Each was written by a fresh sub-agent that saw only the property text and its own scratch worktree, was re-confirmed in a new scratch worktree (existing suite passes with it; its demonstration fails with it and passes without it - `tools/seed_intake.sh`), and is kept under `seeded/<id>/` (patch.diff, demo/, SEEDED.md, meta.json). `tools/seed_matrix.sh` applies each to `/repo`, runs the quick check of its property and reverts.\n")
sec8.append("| seed | change | needs, to manifest | quick check of its property | first signature | also caught by / strengthening it prompted |")
sec8.append("|---|---|---|---|---|---|")
res = {r[0]: r for r in rows(os.path.join(V, "seeded/RESULTS.tsv"))}
for d in sorted(glob.glob(os.path.join(V, "seeded/C*-*/meta.json"))):
    m = json.load(open(d))
    r = res.get(m["id"], [m["id"], m["property"], "not run", ""])
    if os.path.exists(os.path.join(os.path.dirname(d), "SUPERSEDED")):
        r = [m["id"], m["property"], "superseded (" + open(os.path.join(os.path.dirname(d), "SUPERSEDED")).read().strip().split("\n")[0][:160] + ")", ""]
    sec8.append("| %s | %s | %s | %s %s | `%s` | %s |" % (m["id"], m["change"], m["needs_to_manifest"], r[1], r[2], r[3].strip(), "; ".join(m["caught_by"])))
sec8.append("")
sec8.append("### 8.2 Hand-written mutants and reverted fixes\n")
sec8.append("`tools/mutant_matrix.sh` applies every patch of `mutants/` to `/repo`, runs the quick check(s) named by the file (for `revert-fix-*` the checks of the properties the fix was made for) and reverts. A reverted fix that is caught shows that the corresponding `fixed:` entry of KNOWN_FINDINGS.jsonl suppresses nothing.\n")
sec8.append("| mutant | check | result | first signature |")
sec8.append("|---|---|---|---|")
for r in rows(os.path.join(V, "mutants/RESULTS.tsv")):
    sec8.append("| %s | %s | %s | `%s` |" % (r[0], r[1], r[2], r[3].strip()))
sec8.append("")

sec12 = ["| check | engine | level | shards q/t | quick: evaluations, distinct classes, wall | what an evaluation is |", "|---|---|---|---|---|---|"]
for pid in sorted(PROPS):
    c = PROPS[pid]
    ev = {}
    p = os.path.join(V, "evidence", pid + ".json")
    if os.path.exists(p):
        ev = json.load(open(p))
    cov = ev.get("coverage", {})
    sec12.append("| %s | %s | %s | %s/%s | %s, %s, %ss (%s, seed %s) | %s |" % (pid, c.get("engine", "sim"), c["level"], c.get("shards_quick", 1), c.get("shards_thorough", 1),
        cov.get("evaluations", "?"), cov.get("distinct_nontrivial", "?"), ev.get("wall_s", "?"), ev.get("tier", "?"), ev.get("seed", "?"), c["rule"].split(";")[0][:150]))
sec12.append("")

path = os.path.join(V, "DESIGN.md")
s = open(path).read()
def put(s, tag, body):
    b, e = "<!-- BEGIN %s -->" % tag, "<!-- END %s -->" % tag
    if b not in s:
        raise SystemExit("marker %s missing" % tag)
    i, j = s.index(b) + len(b), s.index(e)
    return s[:i] + "\n" + body + "\n" + s[j:]
s = put(s, "GENERATED-SECTION-8", "\n".join(sec8))
s = put(s, "GENERATED-SECTION-12", "\n".join(sec12))
open(path, "w").write(s)
print("tables regenerated")
