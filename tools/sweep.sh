#!/bin/bash
# usage: tools/sweep.sh <tier> <seed...>   -- runs every registered check at the given seeds; prints one line per run
tier=$1; shift
cd "$(dirname "$0")/.." || exit 1
for seed in "$@"; do
  for p in C01 C02 C03 C04 C05 C06 C07 C08 C09 C10 C11 C12 C13 C14 C15 C16 C17 C18 C19 C20; do
    out=$(timeout 3000 ./check $p --tier $tier --seed $seed --no-evidence 2>&1); rc=$?
    echo "seed=$seed $p rc=$rc $(echo "$out" | grep "$p $tier" | tail -1)"
    if [ $rc -ne 0 ]; then echo "$out" | grep -v "^KNOWN" | grep "VIOLATION\|INCONCLUSIVE\|->" | cut -c1-400 | head -8; fi
  done
done
