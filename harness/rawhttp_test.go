package verifharness

// Raw HTTP/1.1 message reading and writing for the pass-through monitors (C13, C14, C15, C19):
// nothing is normalised, so that what a client or a target put on the wire can be compared
// byte for byte with what arrived on the other side.

import (
	"bufio"
	"bytes"
	"fmt"
	"io"
	"strconv"
	"strings"
	"time"
)

type RawMsg struct {
	Line    string      `json:"line"` // request line or status line
	Hdr     [][2]string `json:"headers"`
	Body    []byte      `json:"-"`
	BodyLen int         `json:"body_len"`
	Chunked bool        `json:"chunked"`
	BodyErr string      `json:"body_err,omitempty"` // body ended early (truncated / malformed)
	Chunks  int         `json:"chunks,omitempty"`
}

func (m *RawMsg) Get(name string) []string {
	var out []string
	for _, h := range m.Hdr {
		if strings.EqualFold(h[0], name) {
			out = append(out, h[1])
		}
	}
	return out
}

func (m *RawMsg) First(name string) string {
	if v := m.Get(name); len(v) > 0 {
		return v[0]
	}
	return ""
}

func (m *RawMsg) Status() int {
	f := strings.Fields(m.Line)
	if len(f) < 2 {
		return -1
	}
	n, err := strconv.Atoi(f[1])
	if err != nil {
		return -1
	}
	return n
}

func readLine(br *bufio.Reader) (string, error) {
	l, err := br.ReadString('\n')
	if err != nil {
		return l, err
	}
	return strings.TrimRight(l, "\r\n"), nil
}

// readRawHead reads the start line and the header block.
func readRawHead(br *bufio.Reader) (*RawMsg, error) {
	line, err := readLine(br)
	if err != nil {
		return nil, err
	}
	m := &RawMsg{Line: line}
	for {
		l, err := readLine(br)
		if err != nil {
			return m, fmt.Errorf("header block incomplete: %w", err)
		}
		if l == "" {
			return m, nil
		}
		i := strings.IndexByte(l, ':')
		if i < 0 {
			return m, fmt.Errorf("malformed header line %q", l)
		}
		m.Hdr = append(m.Hdr, [2]string{l[:i], strings.Trim(l[i+1:], " \t")})
	}
}

// readRawBody reads the body according to the framing headers. noBody: HEAD responses, 1xx/204/304.
// untilEOF: a response without framing is delimited by connection close.
func readRawBody(br *bufio.Reader, m *RawMsg, noBody, untilEOF bool) {
	defer func() { m.BodyLen = len(m.Body) }()
	if noBody {
		return
	}
	te := strings.ToLower(strings.Join(m.Get("Transfer-Encoding"), ","))
	if strings.Contains(te, "chunked") {
		m.Chunked = true
		var body bytes.Buffer
		for {
			l, err := readLine(br)
			if err != nil {
				m.Body, m.BodyErr = body.Bytes(), "chunk size line: "+err.Error()
				return
			}
			if i := strings.IndexByte(l, ';'); i >= 0 {
				l = l[:i]
			}
			n, err := strconv.ParseInt(strings.TrimSpace(l), 16, 64)
			if err != nil {
				m.Body, m.BodyErr = body.Bytes(), "bad chunk size "+l
				return
			}
			if n == 0 {
				for { // trailers
					t, err := readLine(br)
					if err != nil {
						m.Body, m.BodyErr = body.Bytes(), "trailer: "+err.Error()
						return
					}
					if t == "" {
						break
					}
				}
				m.Body = body.Bytes()
				return
			}
			m.Chunks++
			if _, err := io.CopyN(&body, br, n); err != nil {
				m.Body, m.BodyErr = body.Bytes(), "chunk data: "+err.Error()
				return
			}
			if l, err := readLine(br); err != nil || l != "" {
				m.Body, m.BodyErr = body.Bytes(), "chunk terminator missing"
				return
			}
		}
	}
	if cl := m.First("Content-Length"); cl != "" {
		n, err := strconv.ParseInt(cl, 10, 64)
		if err != nil || n < 0 {
			m.BodyErr = "bad content-length " + cl
			return
		}
		buf := make([]byte, n)
		k, err := io.ReadFull(br, buf)
		m.Body = buf[:k]
		if err != nil {
			m.BodyErr = fmt.Sprintf("body short: %d of %d bytes: %v", k, n, err)
		}
		return
	}
	if untilEOF {
		b, err := io.ReadAll(br)
		m.Body = b
		if err != nil {
			m.BodyErr = "read until close: " + err.Error()
		}
	}
}

func readRawRequest(br *bufio.Reader) (*RawMsg, error) {
	m, err := readRawHead(br)
	if err != nil {
		return m, err
	}
	readRawBody(br, m, false, false)
	return m, nil
}

func readRawResponse(br *bufio.Reader, reqMethod string) (*RawMsg, error) {
	for {
		m, err := readRawHead(br)
		if err != nil {
			return m, err
		}
		st := m.Status()
		if st >= 100 && st < 200 && st != 101 {
			continue // informational
		}
		noBody := reqMethod == "HEAD" || st == 204 || st == 304 || st == 101
		readRawBody(br, m, noBody, true)
		return m, nil
	}
}

// writeRaw serialises a message; chunks > 0 sends the body chunked in that many pieces.
func writeRaw(w io.Writer, line string, hdr [][2]string, body []byte, chunks int) error {
	var b bytes.Buffer
	b.WriteString(line + "\r\n")
	for _, h := range hdr {
		b.WriteString(h[0] + ": " + h[1] + "\r\n")
	}
	if chunks > 0 {
		b.WriteString("Transfer-Encoding: chunked\r\n\r\n")
		n := len(body)
		for i := 0; i < chunks; i++ {
			lo, hi := n*i/chunks, n*(i+1)/chunks
			if hi > lo {
				fmt.Fprintf(&b, "%x\r\n", hi-lo)
				b.Write(body[lo:hi])
				b.WriteString("\r\n")
			}
		}
		b.WriteString("0\r\n\r\n")
	} else {
		b.WriteString("\r\n")
		b.Write(body)
	}
	_, err := w.Write(b.Bytes())
	return err
}

// writeTrickled sends a serialised message slowly: the head and the first third of what follows at
// once, the other two thirds after one gap each. sleep returns false when the world has ended.
func writeTrickled(w io.Writer, data []byte, gap time.Duration, sleep func(time.Duration) bool) error {
	head := bytes.Index(data, []byte("\r\n\r\n"))
	if head < 0 {
		_, err := w.Write(data)
		return err
	}
	head += 4
	rest := len(data) - head
	cuts := []int{head + rest/3, head + 2*rest/3, len(data)}
	lo := 0
	for i, hi := range cuts {
		if hi > lo {
			if _, err := w.Write(data[lo:hi]); err != nil {
				return err
			}
		}
		lo = hi
		if i < len(cuts)-1 && !sleep(gap) {
			return io.ErrClosedPipe
		}
	}
	return nil
}

var hopByHop = map[string]bool{"connection": true, "keep-alive": true, "te": true, "trailer": true, "trailers": true, "transfer-encoding": true, "upgrade": true,
	"proxy-connection": true, "proxy-authenticate": true, "proxy-authorization": true}
