package verifharness

// Shared by C06, C10, C11, C12, C16: random command histories over services with every option
// varied, and an "observable snapshot" of a proxy (what clients, targets, the operator and the
// file system can see).

import (
	"crypto/ecdsa"
	"crypto/elliptic"
	crand "crypto/rand"
	"crypto/sha256"
	"crypto/x509"
	"crypto/x509/pkix"
	"encoding/json"
	"encoding/pem"
	"fmt"
	"math/big"
	"math/rand/v2"
	"os"
	"path/filepath"
	"sort"
	"strings"
	"sync"
	"time"

	"github.com/basecamp/kamal-proxy/internal/server"
)

// ---------- fixtures: certificate, error pages ----------

var (
	fixOnce sync.Once
	fixDir  string
)

// Fixtures creates (once per process) a static certificate pair, an invalid pair, a custom
// error-page directory, one with an unparsable template and an empty one.
func Fixtures() string {
	fixOnce.Do(func() {
		dir, err := os.MkdirTemp("", "vh-fix-")
		if err != nil {
			panic(err)
		}
		fixDir = dir
		key, _ := ecdsa.GenerateKey(elliptic.P256(), crand.Reader)
		tmpl := &x509.Certificate{SerialNumber: big.NewInt(1), Subject: pkix.Name{CommonName: "verif"}, NotBefore: time.Unix(0, 0), NotAfter: time.Date(2100, 1, 1, 0, 0, 0, 0, time.UTC),
			DNSNames: []string{"*.example", "localhost"}, KeyUsage: x509.KeyUsageDigitalSignature, ExtKeyUsage: []x509.ExtKeyUsage{x509.ExtKeyUsageServerAuth}}
		der, _ := x509.CreateCertificate(crand.Reader, tmpl, tmpl, &key.PublicKey, key)
		kb, _ := x509.MarshalECPrivateKey(key)
		os.WriteFile(filepath.Join(dir, "cert.pem"), pem.EncodeToMemory(&pem.Block{Type: "CERTIFICATE", Bytes: der}), 0o644)
		os.WriteFile(filepath.Join(dir, "key.pem"), pem.EncodeToMemory(&pem.Block{Type: "EC PRIVATE KEY", Bytes: kb}), 0o600)
		os.WriteFile(filepath.Join(dir, "badcert.pem"), []byte("not a certificate"), 0o644)
		os.WriteFile(filepath.Join(dir, "badkey.pem"), []byte("not a key"), 0o600)
		os.MkdirAll(filepath.Join(dir, "pages"), 0o755)
		for _, st := range []int{502, 503, 504, 404} {
			os.WriteFile(filepath.Join(dir, "pages", fmt.Sprintf("%d.html", st)), []byte(fmt.Sprintf("C%d[{{.Message}}]", st)), 0o644)
		}
		os.MkdirAll(filepath.Join(dir, "pages503"), 0o755)
		os.WriteFile(filepath.Join(dir, "pages503", "503.html"), []byte("ONLY503[{{.Message}}]"), 0o644)
		os.MkdirAll(filepath.Join(dir, "pages502"), 0o755)
		os.WriteFile(filepath.Join(dir, "pages502", "502.html"), []byte("ONLY502"), 0o644)
		os.MkdirAll(filepath.Join(dir, "pages504"), 0o755)
		os.WriteFile(filepath.Join(dir, "pages504", "504.html"), []byte("ONLY504"), 0o644)
		os.MkdirAll(filepath.Join(dir, "pagesboth"), 0o755)
		os.WriteFile(filepath.Join(dir, "pagesboth", "502.html"), []byte("BOTH502"), 0o644)
		os.WriteFile(filepath.Join(dir, "pagesboth", "504.html"), []byte("BOTH504"), 0o644)
		os.MkdirAll(filepath.Join(dir, "badpages"), 0o755)
		os.WriteFile(filepath.Join(dir, "badpages", "503.html"), []byte("{{.Message"), 0o644)
		os.MkdirAll(filepath.Join(dir, "emptypages"), 0o755)
	})
	return fixDir
}

// ---------- commands ----------

type Cmd struct {
	Kind     string        `json:"kind"` // deploy rollout-deploy rollout-set rollout-stop pause stop resume remove
	Svc      string        `json:"svc"`
	Targets  []string      `json:"targets,omitempty"`
	Hosts    []string      `json:"hosts,omitempty"`
	Prefixes []string      `json:"prefixes,omitempty"`
	Strip    bool          `json:"strip,omitempty"`
	TLS      string        `json:"tls,omitempty"`   // "", static, static-noredirect, acme, badcert
	Pages    string        `json:"pages,omitempty"` // "", pages, pages503, badpages, emptypages, missing
	BufReq   bool          `json:"buf_req,omitempty"`
	BufResp  bool          `json:"buf_resp,omitempty"`
	MaxReq   int64         `json:"max_req,omitempty"`
	MaxResp  int64         `json:"max_resp,omitempty"`
	MaxMem   int64         `json:"max_mem,omitempty"`
	Fwd      bool          `json:"fwd,omitempty"`
	TargetTO time.Duration `json:"target_timeout,omitempty"`
	HCPath   string        `json:"hc_path,omitempty"`
	HCIv     time.Duration `json:"hc_interval,omitempty"`
	HCTO     time.Duration `json:"hc_timeout,omitempty"`
	LogReq   []string      `json:"log_req,omitempty"`
	LogResp  []string      `json:"log_resp,omitempty"`
	Pct      int           `json:"pct,omitempty"`
	Allow    []string      `json:"allow,omitempty"`
	MaxPause time.Duration `json:"max_pause,omitempty"`
	Msg      string        `json:"msg,omitempty"`
	DeployTO time.Duration `json:"deploy_timeout,omitempty"`
	DrainTO  time.Duration `json:"drain_timeout,omitempty"`
}

var (
	cfgSvcs     = []string{"s0", "s1", "s2", "s3"}
	cfgHostPool = []string{"h0.example", "h1.example", "h2.example", "*.wild.example", "x.wild.example", ""}
	cfgPrefixes = []string{"/", "/api", "/app/y"}
	cfgReqHosts = []string{"h0.example", "h1.example", "h2.example", "x.wild.example", "z.wild.example", "other.example"}
	cfgReqPaths = []string{"/", "/api", "/api/x?q=1", "/app/y/z", "/up", "/health"}
	cfgCookies  = []string{"u1", "u2", "u3", "alpha", "beta", "0123456789abcdef"}
)

type CmdGen struct {
	rng  *rand.Rand
	gen  int
	last map[string]Cmd // last deploy command generated per service
	// optimistic model, only to steer generation towards meaningful commands
	exists  map[string]bool
	rollout map[string]bool
}

func NewCmdGen(rng *rand.Rand) *CmdGen {
	return &CmdGen{rng: rng, exists: map[string]bool{}, rollout: map[string]bool{}, last: map[string]Cmd{}}
}

func (g *CmdGen) targets(svc, slot string) []string {
	g.gen++
	n := 1 + g.rng.IntN(3)
	var out []string
	for i := 0; i < n; i++ {
		out = append(out, fmt.Sprintf("%s-%s%d-%d:80", svc, slot, g.gen, i))
	}
	return out
}

// Deploy generates a deploy command with random options. tlsOK allows TLS variants.
func (g *CmdGen) Deploy(svc string) Cmd {
	rng := g.rng
	c := Cmd{Kind: "deploy", Svc: svc, Targets: g.targets(svc, "a"), DeployTO: 5 * time.Second, DrainTO: time.Second}
	// hosts: mostly the service's own host so that histories succeed, sometimes contended ones
	own := "h" + svc[1:] + ".example"
	switch rng.IntN(6) {
	case 0:
		c.Hosts = nil
	case 1:
		c.Hosts = []string{own, pick(rng, cfgHostPool[:5])}
	case 2:
		c.Hosts = []string{pick(rng, cfgHostPool[:5])}
	default:
		c.Hosts = []string{own}
	}
	if len(c.Hosts) == 2 && c.Hosts[0] == c.Hosts[1] {
		c.Hosts = c.Hosts[:1]
	}
	switch rng.IntN(4) {
	case 0:
		c.Prefixes = []string{pick(rng, cfgPrefixes[1:])}
	case 1:
		c.Prefixes = []string{"/", pick(rng, cfgPrefixes[1:])}
	default:
		c.Prefixes = nil
	}
	c.Strip = rng.IntN(2) == 0
	servesRoot := len(c.Prefixes) == 0 || contains(c.Prefixes, "/")
	if servesRoot && len(c.Hosts) > 0 && rng.IntN(3) == 0 {
		c.TLS = pick(rng, []string{"static", "static-noredirect"})
	}
	c.Pages = pick(rng, []string{"", "", "pages", "pages503"})
	if rng.IntN(3) == 0 {
		c.BufReq, c.MaxReq = true, pick(rng, []int64{0, 2000, 100000})
	}
	if rng.IntN(3) == 0 {
		c.BufResp, c.MaxResp = true, pick(rng, []int64{0, 5, 100000})
	}
	c.MaxMem = pick(rng, []int64{1 << 20, 1000, 64})
	c.Fwd = rng.IntN(2) == 0
	c.TargetTO = pick(rng, []time.Duration{time.Second, 30 * time.Second})
	c.HCPath = pick(rng, []string{"/up", "/up", "/health"})
	c.HCIv = pick(rng, []time.Duration{time.Second, 2 * time.Second})
	c.HCTO = pick(rng, []time.Duration{500 * time.Millisecond, 5 * time.Second})
	if rng.IntN(3) == 0 {
		c.LogReq, c.LogResp = []string{"x-multi", "User-Agent"}, []string{"X-Target"}
	}
	g.last[svc] = c
	return c
}

// Tweak generates a redeploy of svc that repeats its last deploy with new targets and exactly one
// option changed (what an operator does when adjusting a single setting).
func (g *CmdGen) Tweak(svc string) Cmd {
	prev, ok := g.last[svc]
	if !ok {
		return g.Deploy(svc)
	}
	c := prev
	c.Targets = g.targets(svc, "a")
	switch g.rng.IntN(10) {
	case 0:
		c.Fwd = !c.Fwd
	case 1:
		c.Strip = !c.Strip
	case 2:
		c.BufReq = !c.BufReq
	case 3:
		c.BufResp = !c.BufResp
	case 4:
		c.TargetTO = map[time.Duration]time.Duration{time.Second: 30 * time.Second, 30 * time.Second: time.Second}[c.TargetTO]
	case 5:
		c.HCPath = map[string]string{"/up": "/health", "/health": "/up"}[c.HCPath]
	case 6:
		c.HCIv = map[time.Duration]time.Duration{time.Second: 2 * time.Second, 2 * time.Second: time.Second}[c.HCIv]
	case 7:
		c.MaxMem = map[int64]int64{1 << 20: 64, 1000: 1 << 20, 64: 1000}[c.MaxMem]
	case 8:
		c.MaxReq = map[int64]int64{0: 2000, 2000: 100000, 100000: 0}[c.MaxReq]
	case 9:
		c.HCTO = map[time.Duration]time.Duration{500 * time.Millisecond: 5 * time.Second, 5 * time.Second: 500 * time.Millisecond}[c.HCTO]
	}
	g.last[svc] = c
	return c
}

func (g *CmdGen) Next() Cmd {
	rng := g.rng
	svc := pick(rng, cfgSvcs)
	kinds := []string{"deploy", "deploy"}
	if g.exists[svc] {
		kinds = append(kinds, "deploy", "rollout-deploy", "rollout-deploy", "rollout-set", "rollout-stop", "pause", "stop", "resume", "remove")
		if g.rollout[svc] {
			kinds = append(kinds, "rollout-set", "rollout-set", "rollout-set", "rollout-set")
		}
	}
	k := pick(rng, kinds)
	switch k {
	case "deploy":
		if g.exists[svc] && rng.IntN(2) == 0 {
			return g.Tweak(svc)
		}
		g.exists[svc] = true
		return g.Deploy(svc)
	case "rollout-deploy":
		g.rollout[svc] = true
		return Cmd{Kind: k, Svc: svc, Targets: g.targets(svc, "r"), DeployTO: 5 * time.Second, DrainTO: time.Second}
	case "rollout-set":
		c := Cmd{Kind: k, Svc: svc, Pct: pick(rng, []int{0, 0, 10, 50, 90, 100})}
		if rng.IntN(3) != 0 {
			c.Allow = []string{pick(rng, cfgCookies), pick(rng, cfgCookies), "zz"}
		}
		return c
	case "pause":
		return Cmd{Kind: k, Svc: svc, DrainTO: time.Second, MaxPause: pick(rng, []time.Duration{300 * time.Millisecond, 700 * time.Millisecond})}
	case "stop":
		return Cmd{Kind: k, Svc: svc, DrainTO: time.Second, Msg: pick(rng, []string{"", "gone fishing", "<b>x</b> & y"})}
	case "remove":
		g.exists[svc], g.rollout[svc] = false, false
	}
	return Cmd{Kind: k, Svc: svc}
}

func (c Cmd) options() (server.ServiceOptions, server.TargetOptions) {
	fix := Fixtures()
	so := server.ServiceOptions{Hosts: c.Hosts, PathPrefixes: c.Prefixes, StripPrefix: c.Strip, TLSRedirect: true}
	switch c.TLS {
	case "static":
		so.TLSEnabled, so.TLSCertificatePath, so.TLSPrivateKeyPath = true, filepath.Join(fix, "cert.pem"), filepath.Join(fix, "key.pem")
	case "static-noredirect":
		so.TLSEnabled, so.TLSRedirect, so.TLSCertificatePath, so.TLSPrivateKeyPath = true, false, filepath.Join(fix, "cert.pem"), filepath.Join(fix, "key.pem")
	case "badcert":
		so.TLSEnabled, so.TLSCertificatePath, so.TLSPrivateKeyPath = true, filepath.Join(fix, "badcert.pem"), filepath.Join(fix, "badkey.pem")
	case "missingcert":
		so.TLSEnabled, so.TLSCertificatePath, so.TLSPrivateKeyPath = true, filepath.Join(fix, "nope.pem"), filepath.Join(fix, "nokey.pem")
	case "off-with-cert":
		// TLS off, but the certificate flags of an earlier TLS deployment are still given
		so.TLSEnabled, so.TLSCertificatePath, so.TLSPrivateKeyPath = false, filepath.Join(fix, "cert.pem"), filepath.Join(fix, "key.pem")
	case "acme":
		so.TLSEnabled, so.ACMEDirectory, so.ACMECachePath = true, "http://acme.invalid/dir", filepath.Join(fix, "acme-cache")
	}
	if c.Pages != "" {
		so.ErrorPagePath = filepath.Join(fix, c.Pages)
	}
	to := server.TargetOptions{
		HealthCheckConfig: server.HealthCheckConfig{Path: cmpOr(c.HCPath, "/up"), Interval: c.HCIv, Timeout: c.HCTO},
		ResponseTimeout:   c.TargetTO, BufferRequests: c.BufReq, BufferResponses: c.BufResp, MaxMemoryBufferSize: c.MaxMem,
		MaxRequestBodySize: c.MaxReq, MaxResponseBodySize: c.MaxResp, ForwardHeaders: c.Fwd,
		LogRequestHeaders: append([]string(nil), c.LogReq...), LogResponseHeaders: append([]string(nil), c.LogResp...),
	}
	if to.HealthCheckConfig.Interval == 0 {
		to.HealthCheckConfig.Interval = time.Second
	}
	if to.HealthCheckConfig.Timeout == 0 {
		to.HealthCheckConfig.Timeout = 5 * time.Second
	}
	if to.ResponseTimeout == 0 {
		to.ResponseTimeout = 30 * time.Second
	}
	if to.MaxMemoryBufferSize == 0 {
		to.MaxMemoryBufferSize = 1 << 20
	}
	return so, to
}

// Exec runs the command against a router, recording it in the world.
func (c Cmd) Exec(w *World, r *server.Router) *CmdRec {
	for _, t := range c.Targets {
		if w.Target(t) == nil && !strings.ContainsAny(t, " !/") {
			w.AddTarget(t, nil)
		}
	}
	b, _ := json.Marshal(c)
	return w.Cmd(c.Kind, string(b), func() error {
		switch c.Kind {
		case "deploy":
			so, to := c.options()
			return r.DeployService(c.Svc, c.Targets, so, to, c.DeployTO, c.DrainTO)
		case "rollout-deploy":
			return r.SetRolloutTargets(c.Svc, c.Targets, c.DeployTO, c.DrainTO)
		case "rollout-set":
			return r.SetRolloutSplit(c.Svc, c.Pct, c.Allow)
		case "rollout-stop":
			return r.StopRollout(c.Svc)
		case "pause":
			return r.PauseService(c.Svc, c.DrainTO, c.MaxPause)
		case "stop":
			return r.StopService(c.Svc, c.DrainTO, c.Msg)
		case "resume":
			return r.ResumeService(c.Svc)
		case "remove":
			return r.RemoveService(c.Svc)
		}
		return fmt.Errorf("unknown command kind %q", c.Kind)
	})
}

// ---------- observable snapshot ----------

func genTag(target string) string {
	t := strings.TrimSuffix(target, ":80")
	if i := strings.LastIndex(t, "-"); i > 0 {
		return t[:i]
	}
	return t
}

func bodySig(b []byte) string {
	if len(b) == 0 {
		return "-"
	}
	if len(b) <= 60 {
		return string(b)
	}
	h := sha256.Sum256(b)
	return fmt.Sprintf("sha:%x/%d", h[:6], len(b))
}

// Observe takes the observable snapshot of a proxy. All requests are issued concurrently (held
// requests of paused services time out after their max-pause in virtual time). The result maps
// an observable's name to its value; two proxies / two instants are compared key by key.
func Observe(w *World, p *Proxy, tag string, full bool) map[string]string {
	out := map[string]string{}
	var mu sync.Mutex
	set := func(k, v string) { mu.Lock(); out[k] = v; mu.Unlock() }
	// operator view
	func() {
		defer func() {
			if r := recover(); r != nil {
				set("list", fmt.Sprint("PANIC ", r))
			}
		}()
		for name, d := range p.Router.ListActiveServices() {
			tg := strings.Split(d.Target, ",")
			sort.Strings(tg)
			set("list/"+name, fmt.Sprintf("host=%s path=%s tls=%v state=%s targets=%s", d.Host, d.Path, d.TLS, d.State, strings.Join(tg, ",")))
		}
	}()
	// file system view
	if b, err := os.ReadFile(p.StatePath); err == nil {
		var v []map[string]any
		if json.Unmarshal(b, &v) == nil {
			sort.Slice(v, func(i, j int) bool { return fmt.Sprint(v[i]["name"]) < fmt.Sprint(v[j]["name"]) })
			for _, s := range v {
				// a nil and an empty rollout target list describe the same configuration
				if rt, ok := s["rollout_targets"].([]any); ok && len(rt) == 0 {
					s["rollout_targets"] = nil
				}
			}
			nb, _ := json.Marshal(v)
			set("statefile", string(nb))
		} else {
			set("statefile", "UNPARSABLE:"+bodySig(b))
		}
	} else {
		set("statefile", "absent")
	}
	// client view
	var wg sync.WaitGroup
	n := 0
	do := func(key string, r Req, f func(*Resp) string) {
		n++
		r.ID = fmt.Sprintf("%s-%d", tag, n)
		wg.Add(1)
		go func() {
			defer wg.Done()
			resp := p.Do(r)
			set(key, f(resp))
		}()
	}
	basic := func(r *Resp) string {
		s := fmt.Sprintf("%d gen=%s", r.Status, genTag(r.Target))
		if r.Target == "" {
			s += " body=" + bodySig(r.Body)
			if loc := r.Header.Get("Location"); loc != "" {
				s += " loc=" + loc
			}
		} else {
			s += " uri=" + r.Header.Get("X-Echo-Uri") + " xff=" + r.Header.Get("X-Echo-Xff") + " xfp=" + r.Header.Get("X-Echo-Xfp")
		}
		if r.Err != "" {
			s += " err=" + r.Err
		}
		return s
	}
	for _, h := range cfgReqHosts {
		for _, path := range cfgReqPaths {
			do("GET "+h+path, Req{Host: h, Path: path, Hdr: [][2]string{{"X-Forwarded-For", "1.2.3.4"}, {"X-Forwarded-Proto", "ftp"}}}, basic)
		}
		if !full {
			continue
		}
		for _, ck := range cfgCookies {
			do("COOKIE "+ck+" "+h, Req{Host: h, Path: "/api/c", Hdr: [][2]string{{"Cookie", "kamal-rollout=" + ck}, {"X-Forwarded-For", "4.3.2.1"}, {"X-Forwarded-Proto", "gopher"}}}, func(r *Resp) string {
				return fmt.Sprintf("%d gen=%s uri=%s xff=%s xfp=%s", r.Status, genTag(r.Target), r.Header.Get("X-Echo-Uri"), r.Header.Get("X-Echo-Xff"), r.Header.Get("X-Echo-Xfp"))
			})
		}
		for _, ck := range cfgCookies[:2] {
			// the rollout side must show the same buffering limits and target timeout too
			do("COOKIE-POST "+ck+" "+h, Req{Method: "POST", Host: h, Path: "/api/p", Body: make([]byte, 3000), Hdr: [][2]string{{"Cookie", "kamal-rollout=" + ck}}}, func(r *Resp) string {
				return fmt.Sprintf("%d gen=%s len=%s", r.Status, genTag(r.Target), r.Header.Get("X-Echo-Len"))
			})
			do("COOKIE-SLOW "+ck+" "+h, Req{Host: h, Path: "/api/slow", Lat: 1500*time.Millisecond + OffTarget, Hdr: [][2]string{{"Cookie", "kamal-rollout=" + ck}}}, func(r *Resp) string {
				return fmt.Sprintf("%d gen=%s took=%v", r.Status, genTag(r.Target), (r.Done - r.Sent).Round(100*time.Millisecond))
			})
		}
		for _, sz := range []int{1000, 3000} {
			do(fmt.Sprintf("POST %d %s", sz, h), Req{Method: "POST", Host: h, Path: "/api/p", Body: make([]byte, sz)}, func(r *Resp) string {
				return fmt.Sprintf("%d gen=%s len=%s", r.Status, genTag(r.Target), r.Header.Get("X-Echo-Len"))
			})
		}
		do("SLOW "+h, Req{Host: h, Path: "/api/slow", Lat: 1500*time.Millisecond + OffTarget}, func(r *Resp) string {
			return fmt.Sprintf("%d gen=%s took=%v", r.Status, genTag(r.Target), (r.Done - r.Sent).Round(100*time.Millisecond))
		})
		if p.tlsLn != nil {
			do("TLS "+h, Req{Host: h, Path: "/api/t", TLS: true, SNI: h}, func(r *Resp) string {
				e := r.Err
				if i := strings.Index(e, ":"); i > 0 && r.Status < 0 {
					e = "handshake-or-io-error"
				}
				return fmt.Sprintf("%d gen=%s xfp=%s err=%s", r.Status, genTag(r.Target), r.Header.Get("X-Echo-Xfp"), e)
			})
		}
	}
	wg.Wait()
	return out
}

// DiffObs lists the observables that differ (ignoring the given key prefixes).
func DiffObs(a, b map[string]string, ignore ...string) []string {
	var out []string
	keys := map[string]bool{}
	for k := range a {
		keys[k] = true
	}
	for k := range b {
		keys[k] = true
	}
	var ks []string
	for k := range keys {
		ks = append(ks, k)
	}
	sort.Strings(ks)
next:
	for _, k := range ks {
		for _, ig := range ignore {
			if strings.HasPrefix(k, ig) {
				continue next
			}
		}
		if a[k] != b[k] {
			va, vb := a[k], b[k]
			if len(va) > 300 {
				va = va[:300] + "..."
			}
			if len(vb) > 300 {
				vb = vb[:300] + "..."
			}
			out = append(out, fmt.Sprintf("%s: %q vs %q", k, va, vb))
		}
	}
	return out
}
