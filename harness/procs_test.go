package verifharness

// Real-process helpers (C12 real crashes, C20 CLI): the built kamal-proxy binary is run with a
// scratch HOME / XDG_RUNTIME_DIR; targets are real HTTP servers inside the test process.

import (
	"bytes"
	"context"
	"fmt"
	"net"
	"net/http"
	"net/http/httptest"
	"os"
	"os/exec"
	"path/filepath"
	"regexp"
	"strings"
	"syscall"
	"testing"
	"time"
)

type Universe struct {
	T      *testing.T
	Bin    string
	Dir    string
	HTTP   int
	HTTPS  int
	proc   *exec.Cmd
	exited chan struct{} // closed by the single goroutine that waits for the process
	out    *bytes.Buffer
	Extra  []string // extra environment for the proxy process
}

func freePort() int {
	l, err := net.Listen("tcp", "127.0.0.1:0")
	if err != nil {
		return 0
	}
	defer l.Close()
	return l.Addr().(*net.TCPAddr).Port
}

func NewUniverse(t *testing.T, bin string) *Universe {
	dir, err := os.MkdirTemp("", "vh-uni-")
	if err != nil {
		t.Fatal(err)
	}
	os.MkdirAll(filepath.Join(dir, "run"), 0o755)
	return &Universe{T: t, Bin: bin, Dir: dir, HTTP: freePort(), HTTPS: freePort()}
}

func (u *Universe) env(extra ...string) []string {
	env := []string{"HOME=" + u.Dir, "XDG_RUNTIME_DIR=" + filepath.Join(u.Dir, "run"), "PATH=" + os.Getenv("PATH")}
	env = append(env, u.Extra...)
	return append(env, extra...)
}

func (u *Universe) StatePath() string {
	return filepath.Join(u.Dir, ".config", "kamal-proxy", "kamal-proxy.state")
}

// Start runs `kamal-proxy run` (optionally under a wrapper such as strace) and waits until the
// command socket answers. Wall-clock waits here are watchdogs only: a timeout is "inconclusive".
func (u *Universe) Start(wrapper []string, extraEnv ...string) error {
	var err error
	for attempt := 0; attempt < 4; attempt++ {
		if err = u.startOnce(wrapper, extraEnv...); err == nil {
			return nil
		}
		// most likely a "free" port was taken by another process in the meantime
		u.HTTP, u.HTTPS = freePort(), freePort()
	}
	return err
}

func (u *Universe) startOnce(wrapper []string, extraEnv ...string) error {
	args := append(append([]string{}, wrapper...), u.Bin, "run", "--http-port", fmt.Sprint(u.HTTP), "--https-port", fmt.Sprint(u.HTTPS))
	u.proc = exec.Command(args[0], args[1:]...)
	u.proc.Env = u.env(extraEnv...)
	u.out = &bytes.Buffer{}
	u.proc.Stdout, u.proc.Stderr = u.out, u.out
	u.proc.SysProcAttr = &syscall.SysProcAttr{Setpgid: true}
	if err := u.proc.Start(); err != nil {
		return err
	}
	exited := make(chan struct{})
	u.exited = exited
	proc := u.proc
	go func() { proc.Wait(); close(exited) }()
	deadline := time.Now().Add(20 * time.Second)
	for time.Now().Before(deadline) {
		if _, code := u.CLI("list"); code == 0 {
			return nil
		}
		select {
		case <-exited:
			u.proc = nil
			return fmt.Errorf("proxy exited during start-up: %s", trunc(u.out.String(), 400))
		default:
		}
		time.Sleep(20 * time.Millisecond)
	}
	u.Stop()
	return fmt.Errorf("proxy did not come up")
}

// CLI runs a client command; returns combined output and exit code (-1 if it could not run).
func (u *Universe) CLI(args ...string) (string, int) {
	ctx, cancel := context.WithTimeout(context.Background(), 60*time.Second)
	defer cancel()
	cmd := exec.CommandContext(ctx, u.Bin, args...)
	cmd.Env = u.env()
	out, err := cmd.CombinedOutput()
	if err == nil {
		return string(out), 0
	}
	if ee, ok := err.(*exec.ExitError); ok {
		return string(out), ee.ExitCode()
	}
	return string(out) + err.Error(), -1
}

// Stop terminates the proxy gracefully (SIGTERM, then SIGKILL) and waits for it.
func (u *Universe) Stop() {
	if u.proc == nil || u.proc.Process == nil {
		return
	}
	pid := u.proc.Process.Pid
	syscall.Kill(-pid, syscall.SIGTERM)
	select {
	case <-u.exited:
	case <-time.After(15 * time.Second):
		syscall.Kill(-pid, syscall.SIGKILL)
		select {
		case <-u.exited:
		case <-time.After(10 * time.Second):
		}
	}
	u.proc = nil
}

// WaitExit waits for the proxy process to die on its own (crash injection); false on timeout.
func (u *Universe) WaitExit(d time.Duration) bool {
	if u.proc == nil {
		return true
	}
	select {
	case <-u.exited:
		u.proc = nil
		return true
	case <-time.After(d):
		return false
	}
}

func (u *Universe) Cleanup() {
	u.Stop()
	os.RemoveAll(u.Dir)
}

var ansiRE = regexp.MustCompile("\x1b\\[[0-9;]*m")

// ListRows returns the rows of `kamal-proxy list` (ANSI stripped, cells trimmed), header excluded.
func (u *Universe) ListRows() ([][]string, string, int) {
	out, code := u.CLI("list")
	var rows [][]string
	for i, line := range strings.Split(ansiRE.ReplaceAllString(out, ""), "\n") {
		if i == 0 || strings.TrimSpace(line) == "" {
			continue
		}
		rows = append(rows, strings.Fields(line))
	}
	return rows, out, code
}

func rowsKey(rows [][]string) string {
	var ls []string
	for _, r := range rows {
		ls = append(ls, strings.Join(r, " "))
	}
	return strings.Join(ls, "\n")
}

// RealTarget is an always-healthy HTTP server answering with a marker header.
func RealTarget(name string) (*httptest.Server, string) {
	s := httptest.NewServer(http.HandlerFunc(func(w http.ResponseWriter, r *http.Request) {
		if d, err := time.ParseDuration(r.Header.Get("X-Sleep")); err == nil {
			time.Sleep(d) // a slow request (keeps a drain of this target open)
		}
		w.Header().Set("X-Target", name)
		w.Write([]byte(name))
	}))
	return s, strings.TrimPrefix(s.URL, "http://")
}
