package verifharness

// C16 TLS policy: redirect, refuse, certificates only for bound hosts; sub-path services follow
// the root-path service of their host.

import (
	"crypto/tls"
	"fmt"
	"github.com/basecamp/kamal-proxy/internal/server"
	"math/rand/v2"
	"net/http"
	"net/http/httptest"
	"net/url"
	"os"
	"path/filepath"
	"sort"
	"strings"
	"sync"
	"sync/atomic"
	"testing"
	"testing/synctest"
	"time"
)

type c16Service struct {
	c04Service
	TLS   string `json:"tls"` // "", off-with-cert, static, static-noredirect, acme
	Fwd   bool   `json:"forward_headers"`
	Strip bool   `json:"strip_prefix"`
}

type c16Scenario struct {
	Idx      int          `json:"idx"`
	Services []c16Service `json:"services"`
	Build    string       `json:"build"`                    // order | sub-first | flip-root | remove-root | restore
	Reserved []string     `json:"reserved_paths,omitempty"` // paths of the reserved namespaces asked of every host, next to c16Paths
}

var (
	c16Hosts    = []string{"t0.example", "t1.example", "*.wild.example", "x.wild.example", ""}
	c16ReqHosts = []string{"t0.example", "t0.example:80", "t0.example:8080", "t1.example", "x.wild.example", "y.wild.example", "y.wild.example:443", "unbound.example", "10.1.2.3"}
	c16Paths    = []string{"/", "/api", "/api/x", "/app/y/z", "//evil.example/x", "/a%2Fb", "/p%20q/%41", "/api/"}
	c16Queries  = []string{"", "?", "?a=1&b=2", "?q=a;b&&c", "?x=%zz", "?u=https://evil.example/%23"}
	// paths in the namespaces that some other layer of the proxy (or of the web) gives a meaning of its
	// own: the ACME HTTP-01 challenge directory that a certificate manager's HTTP handler answers, the
	// rest of /.well-known, the health-check path. "Every path" of the statement includes them: the
	// redirect is owed whatever handler sits (or does not sit) in front of the service - a static
	// certificate has none, a sub-path service has no certificate manager at all. Sub-path services
	// are also deployed ON these namespaces (c16SubPrefixes).
	c16ReservedPaths = []string{
		"/.well-known/acme-challenge/tok-1", "/.well-known/acme-challenge/", "/.well-known/acme-challenge", "/.well-known/acme-challenge/a/b.txt",
		"/.well-known/acme-challenge/%74ok", "/.WELL-KNOWN/acme-challenge/tok", "/.well-known/security.txt", "/.well-known/", "/.well-known/pki-validation/f.txt",
		"/api/.well-known/acme-challenge/tok", "/up", "/up/", "/api/up",
	}
	c16SubPrefixes = []string{"/api", "/app/y", "/api", "/app/y", "/.well-known", "/.well-known/acme-challenge"}
)

const c16ChallengeDir = "/.well-known/acme-challenge/"

// c16PathKind: which reserved namespace a (decoded) path lies in, for the coverage classes.
func c16PathKind(decoded string) string {
	switch {
	case strings.HasPrefix(decoded, c16ChallengeDir):
		return "acme-challenge"
	case strings.HasPrefix(decoded, "/.well-known"):
		return "well-known"
	case strings.Contains(strings.ToLower(decoded), "well-known"):
		return "well-known-lookalike"
	case strings.HasSuffix(strings.TrimSuffix(decoded, "/"), "/up"):
		return "health-path"
	}
	return ""
}

func c16Gen(rng *rand.Rand, idx int, nReserved int) c16Scenario {
	sc := c16Scenario{Idx: idx, Build: pick(rng, []string{"order", "order", "sub-first", "flip-root", "remove-root", "restore", "move-root", "move-root"})}
	// root-path services
	n := 0
	for _, h := range c16Hosts {
		if rng.IntN(4) == 0 {
			continue
		}
		s := c16Service{TLS: pick(rng, []string{"", "off-with-cert", "static", "static", "static-noredirect"})}
		s.Name = fmt.Sprintf("root%d", n)
		s.Hosts, s.Prefixes, s.RawPfx = []string{h}, []string{"/"}, nil
		if h == "" {
			s.TLS = pick(rng, []string{"", "off-with-cert", "static"})
		}
		if h != "" && !strings.Contains(h, "*") && rng.IntN(8) == 0 {
			s.TLS = "acme"
		}
		sc.Services = append(sc.Services, s)
		n++
	}
	// sub-path services
	for i := 0; i < rng.IntN(4); i++ {
		s := c16Service{}
		s.Name = fmt.Sprintf("sub%d", i)
		s.Hosts = []string{pick(rng, c16Hosts)}
		s.Prefixes = []string{pick(rng, c16SubPrefixes)}
		ok := true
		for _, o := range sc.Services {
			if c04Conflicts(s.c04Service, o.c04Service) {
				ok = false
			}
		}
		if ok {
			sc.Services = append(sc.Services, s)
		}
	}
	for i := range sc.Services {
		sc.Services[i].Fwd = rng.IntN(2) == 0
		sc.Services[i].Strip = rng.IntN(2) == 0 // what the target sees of the path has no bearing on redirects
	}
	// reserved-namespace paths of this scenario: always one inside the challenge directory, the rest drawn
	sc.Reserved = []string{c16ReservedPaths[rng.IntN(2)]}
	for _, i := range rng.Perm(len(c16ReservedPaths)) {
		if len(sc.Reserved) < nReserved && !contains(sc.Reserved, c16ReservedPaths[i]) {
			sc.Reserved = append(sc.Reserved, c16ReservedPaths[i])
		}
	}
	return sc
}

func (s c16Service) cmd() Cmd {
	c := Cmd{Kind: "deploy", Svc: s.Name, Targets: []string{"svc-" + s.Name + ":80"}, Hosts: s.Hosts, Prefixes: s.Prefixes, TLS: s.TLS, Fwd: s.Fwd, Strip: s.Strip, DeployTO: 5 * time.Second, DrainTO: time.Second}
	if len(s.Hosts) == 1 && s.Hosts[0] == "" {
		c.Hosts = nil
	}
	return c
}

func TestC16(t *testing.T) {
	run := NewRun(t, "C16")
	defer run.Finish()
	n := run.N(300, 10000)
	for i := 0; i < n; i++ {
		sc := c16Gen(run.Rand(i), i, run.N(4, 7))
		if !run.Mine(i, sc) {
			continue
		}
		synctest.Test(t, func(t *testing.T) { c16Run(t, run, sc, run.Rand(i+1<<30)) })
	}
	for k := 0; k < run.N(1, 6); k++ { // the thorough tier repeats it: its reach is a matter of volume
		if desc := map[string]any{"kind": "sub-path-service-under-load-while-other-services-come-and-go", "round": k}; run.Mine(n+9000+k, desc) {
			c16Load(t, run, desc)
		}
	}
}

// c16Load: "a service with TLS and redirect enabled never forwards a plain-HTTP request", for a
// sub-path service that follows its root, *while* the routing table is being rebuilt: real time,
// eight clients send plain-HTTP requests to the sub-path service without rest (router called
// in-process) while six operators deploy and remove services on other hosts. Every answer is the
// 301 to the same host, path and query under https; the sub-path target never sees a request.
func c16Load(t *testing.T, run *Run, desc any) {
	run.Eval()
	RestoreHTTPDefaults()
	dir, err := os.MkdirTemp("", "vh-c16-")
	if err != nil {
		run.Inconclusive("tempdir: %v", err)
		return
	}
	defer os.RemoveAll(dir)
	var atAPI atomic.Int64
	mk := func(count bool) *httptest.Server {
		return httptest.NewServer(http.HandlerFunc(func(w http.ResponseWriter, r *http.Request) {
			if count && r.URL.Path != "/up" {
				atAPI.Add(1)
			}
			w.Write([]byte("ok"))
		}))
	}
	root, api, other := mk(false), mk(true), mk(false)
	defer root.Close()
	defer api.Close()
	defer other.Close()
	router := server.NewRouter(filepath.Join(dir, "state.json"))
	to := server.TargetOptions{HealthCheckConfig: server.HealthCheckConfig{Path: "/up", Interval: time.Second, Timeout: 5 * time.Second}, ResponseTimeout: 10 * time.Second}
	addr := func(s *httptest.Server) string { return strings.TrimPrefix(s.URL, "http://") }
	fix := Fixtures()
	rootSO := server.ServiceOptions{Hosts: []string{"load.example"}, TLSEnabled: true, TLSRedirect: true, TLSCertificatePath: fix + "/cert.pem", TLSPrivateKeyPath: fix + "/key.pem"}
	if err := router.DeployService("root", []string{addr(root)}, rootSO, to, 10*time.Second, 5*time.Second); err != nil {
		run.Inconclusive("deploy root: %v", err)
		return
	}
	if err := router.DeployService("api", []string{addr(api)}, server.ServiceOptions{Hosts: []string{"load.example"}, PathPrefixes: []string{"/api"}}, to, 10*time.Second, 5*time.Second); err != nil {
		run.Inconclusive("deploy api: %v", err)
		return
	}
	var stop atomic.Bool
	var total, updates atomic.Int64
	var firstBad atomic.Value
	var wg sync.WaitGroup
	for c := 0; c < 8; c++ {
		wg.Add(1)
		go func() {
			defer wg.Done()
			for k := 0; !stop.Load(); k++ {
				rec := httptest.NewRecorder()
				router.ServeHTTP(rec, httptest.NewRequest("GET", fmt.Sprintf("http://load.example:8080/api/items?c=%d&k=%d", c, k), nil))
				total.Add(1)
				want := fmt.Sprintf("https://load.example/api/items?c=%d&k=%d", c, k)
				if rec.Code != 301 || rec.Header().Get("Location") != want {
					firstBad.CompareAndSwap(nil, fmt.Sprintf("status %d Location %q body %q (expected 301 to %s)", rec.Code, rec.Header().Get("Location"), trunc(rec.Body.String(), 40), want))
				}
			}
		}()
	}
	for o := 0; o < 6; o++ {
		wg.Add(1)
		go func() {
			defer wg.Done()
			name := fmt.Sprintf("other%d", o)
			for !stop.Load() {
				if err := router.DeployService(name, []string{addr(other)}, server.ServiceOptions{Hosts: []string{name + ".example"}}, to, 10*time.Second, time.Second); err == nil {
					router.RemoveService(name)
					updates.Add(2)
				}
			}
		}()
	}
	time.Sleep(4 * time.Second)
	stop.Store(true)
	wg.Wait()
	router.RemoveService("api")
	router.RemoveService("root")
	run.Count("load_requests", int(total.Load()))
	run.Count("load_table_updates", int(updates.Load()))
	if bad := firstBad.Load(); bad != nil {
		run.Violate("plain-http-not-redirected:under-load", fmt.Sprintf("a plain-HTTP request to a sub-path service whose root service has TLS and redirect on was not answered by the redirect while services on other hosts were being deployed and removed (%d requests, %d table updates): %v", total.Load(), updates.Load(), bad), desc, nil)
		return
	}
	if n := atAPI.Load(); n > 0 {
		run.Violate("plain-http-forwarded:under-load", fmt.Sprintf("%d plain-HTTP requests reached the target of the sub-path service", n), desc, nil)
		return
	}
	if total.Load() < 1000 || updates.Load() < 20 {
		run.Inconclusive("load scenario too small to mean anything: %d requests, %d table updates", total.Load(), updates.Load())
		return
	}
	run.Class("load|sub-path-redirect")
}

func c16Run(t *testing.T, run *Run, sc c16Scenario, rng *rand.Rand) {
	run.Eval()
	w := NewWorld(t, WorldOpt{TLSListener: true})
	closed := false
	defer func() {
		if !closed {
			w.Close()
		}
	}()
	fail := func(sig, format string, a ...any) {
		run.Violate(sig, fmt.Sprintf(format, a...), sc, func() []string { return w.Trace(100) })
	}
	final := append([]c16Service{}, sc.Services...)
	deploy := func(s c16Service) bool {
		rec := s.cmd().Exec(w, w.Router)
		if rec.Err != "" || rec.Panic != "" {
			fail("deploy-failed", "deploy %s hosts=%v prefixes=%v tls=%s failed: %s %s", s.Name, s.Hosts, s.Prefixes, s.TLS, rec.Err, rec.Panic)
			return false
		}
		return true
	}
	isRoot := func(s c16Service) bool { return contains(s.Prefixes, "/") }
	order := rng.Perm(len(sc.Services))
	switch sc.Build {
	case "sub-first":
		sort.SliceStable(order, func(a, b int) bool { return !isRoot(sc.Services[order[a]]) && isRoot(sc.Services[order[b]]) })
	}
	if sc.Build == "move-root" {
		// a TLS root service first lives on the host of a sub-path service that has no root service
		// in the final table (so the sub-path service inherits TLS for a while), then moves to its
		// final hosts; "shrink" variant: it first has both host lists
		var movers []c16Service
		for _, r := range sc.Services {
			if !isRoot(r) || (r.TLS != "static" && r.TLS != "static-noredirect") || r.Hosts[0] == "" {
				continue
			}
			for _, sub := range sc.Services {
				if isRoot(sub) || sub.Hosts[0] == "" {
					continue
				}
				free := true
				for _, o := range sc.Services {
					if isRoot(o) && contains(o.Hosts, sub.Hosts[0]) {
						free = false
					}
				}
				if free {
					tmp := r
					tmp.Hosts = []string{sub.Hosts[0]}
					if rng.IntN(2) == 0 {
						tmp.Hosts = append(tmp.Hosts, r.Hosts...)
					}
					movers = append(movers, tmp)
					break
				}
			}
		}
		seen := map[string]bool{}
		for _, m := range movers {
			if !seen[m.Name] && !seen[m.Hosts[0]] {
				seen[m.Name], seen[m.Hosts[0]] = true, true
				if !deploy(m) {
					return
				}
			}
		}
		// sub-path services next, then everything (the movers get their final hosts)
		sort.SliceStable(order, func(a, b int) bool { return !isRoot(sc.Services[order[a]]) && isRoot(sc.Services[order[b]]) })
	}
	for _, i := range order {
		s := sc.Services[i]
		if sc.Build == "flip-root" && isRoot(s) && s.TLS != "acme" {
			// first with the opposite setting, flipped to the final one after everything is deployed
			o := s
			if s.TLS == "" && len(s.Hosts) > 0 && s.Hosts[0] != "" {
				o.TLS = "static"
			} else {
				o.TLS = ""
			}
			if !deploy(o) {
				return
			}
			continue
		}
		if !deploy(s) {
			return
		}
	}
	// handshakes (and direct certificate decisions) for every name under the configuration as first
	// built, unjudged: whatever the proxy remembers per server name has been filled before the
	// configuration changes below, and is judged afterwards against the final one
	for _, sni := range []string{"t0.example", "t1.example", "x.wild.example", "y.wild.example", "unbound.example", "z.t0.example"} {
		w.Router.GetCertificate(&tls.ClientHelloInfo{ServerName: sni})
		w.Do(Req{ID: "warm-" + sni, Host: sni, Path: "/", TLS: true, SNI: sni})
	}
	switch sc.Build {
	case "flip-root":
		for _, i := range rng.Perm(len(sc.Services)) {
			if s := sc.Services[i]; isRoot(s) && s.TLS != "acme" {
				if !deploy(s) {
					return
				}
			}
		}
	case "remove-root":
		// remove one root service: its sub-path services fall back to "TLS off"
		for i, s := range final {
			if isRoot(s) {
				if rec := w.Remove(s.Name); rec.Err != "" {
					fail("remove-failed", "remove %s: %s", s.Name, rec.Err)
					return
				}
				final = append(final[:i:i], final[i+1:]...)
				break
			}
		}
	case "restore":
		dir := w.CopyState()
		w.Close()
		closed = true
		w = NewWorld(t, WorldOpt{TLSListener: true, StateDir: dir})
		closed = false
		for _, s := range sc.Services {
			w.AddTarget("svc-"+s.Name+":80", nil)
		}
		if err := w.Router.RestoreLastSavedState(); err != nil {
			fail("restore-failed", "RestoreLastSavedState: %v", err)
			return
		}
	}
	// ---- expectations from the final set of services ----
	var tbl []c04Service
	byName := map[string]c16Service{}
	for _, s := range final {
		tbl = append(tbl, s.c04Service)
		byName[s.Name] = s
	}
	effective := func(name string) (enabled, redirect bool) {
		s := byName[name]
		if !isRoot(s) {
			rootName := refRoute(tbl, s.Hosts[0], "/")
			if rootName == "" {
				return false, true
			}
			s = byName[rootName]
		}
		switch s.TLS {
		case "static", "acme":
			return true, true
		case "static-noredirect":
			return true, false
		}
		return false, true
	}
	nreq := 0
	classes := map[string]bool{}
	var redirCases [][3]string   // host, path+query, expected Location
	var refusedCases [][3]string // sni, host header, path
	// (a) plain HTTP
	for _, h := range c16ReqHosts {
		for _, p := range append(c16Paths[:len(c16Paths):len(c16Paths)], sc.Reserved...) {
			q := pick(rng, c16Queries)
			nreq++
			id := fmt.Sprintf("p%d", nreq)
			decoded := p
			if p == "/a%2Fb" {
				decoded = "/a/b"
			} else if p == "/p%20q/%41" {
				decoded = "/p q/A"
			}
			name := refRoute(tbl, h, decoded)
			// what the client says about an earlier hop never decides: only the connection it arrived on does
			var claims [][2]string
			if nreq%3 == 0 {
				claims = [][2]string{{"X-Forwarded-Proto", "https"}, {"X-Forwarded-For", "1.2.3.4"}, {"Forwarded", "proto=https;host=" + h}}
			}
			r := w.Do(Req{ID: id, Host: h, Path: p + q, Hdr: claims})
			if name == "" {
				if r.Status != 404 {
					fail("unrouted-not-404", "Host %s path %s: no service, got %d", h, p, r.Status)
					return
				}
				continue
			}
			en, red := effective(name)
			reached := r.Target != ""
			kind, certKind := "", "none" // reserved namespace of the path; what stands in front of the service's own handler
			if dec, err := url.PathUnescape(p); err == nil {
				kind = c16PathKind(dec)
			}
			if isRoot(byName[name]) && byName[name].TLS != "" {
				certKind = strings.TrimSuffix(byName[name].TLS, "-noredirect")
			}
			if en && red && kind == "acme-challenge" && certKind == "acme" {
				// an automatic-TLS service answers the challenge directory from its certificate manager
				// (that is how its certificate is obtained at all); whether that answer is owed to be a
				// 301 is not decidable from the statement. What is: it is never forwarded.
				if reached || r.Status == 200 {
					fail("plain-http-forwarded:challenge-path", "plain request Host %q %s%s to automatic-TLS service %s: status=%d target=%q, a plain-HTTP request is never forwarded", h, p, q, name, r.Status, r.Target)
					return
				}
				classes["reserved-path|acme-challenge|answered-by-certificate-manager"] = true
				continue
			}
			if en && red {
				host := refHost(h)
				want := "https://" + host + p + q
				if r.Status != 301 || r.Header.Get("Location") != want || reached {
					fail("redirect-wrong", "plain request Host %q %s%s to TLS+redirect service %s: status=%d Location=%q target=%q, expected 301 to %q", h, p, q, name, r.Status, r.Header.Get("Location"), r.Target, want)
					return
				}
				classes["redirect|root="+fmt.Sprint(isRoot(byName[name]))] = true
				if kind != "" {
					classes[fmt.Sprintf("reserved-path|%s|redirect|root=%v|in-front=%s", kind, isRoot(byName[name]), certKind)] = true
				}
				if len(redirCases) < 24 || (kind != "" && len(redirCases) < 32) {
					redirCases = append(redirCases, [3]string{h, p + q, want})
				}
			} else if r.Status != 200 || r.Target != "svc-"+name+":80" {
				fail("plain-not-forwarded", "plain request Host %q %s to service %s (tls=%v redirect=%v): status=%d target=%q", h, p, name, en, red, r.Status, r.Target)
				return
			} else {
				classes[fmt.Sprintf("plain-forwarded|tls=%v|root=%v", en, isRoot(byName[name]))] = true
				if kind != "" {
					classes[fmt.Sprintf("reserved-path|%s|plain-forwarded|tls=%v", kind, en)] = true
				}
			}
		}
	}
	// (b) over TLS: handshake decided by the SNI name, request by the Host header
	for _, sni := range []string{"t0.example", "t1.example", "x.wild.example", "y.wild.example", "unbound.example", "z.t0.example"} {
		rootName := refRoute(tbl, sni, "/")
		wantCert := false
		if rootName != "" {
			if s := byName[rootName]; isRoot(s) && (s.TLS == "static" || s.TLS == "static-noredirect") {
				wantCert = true
			}
			if byName[rootName].TLS == "acme" {
				continue // issuance needs the network; not decided here
			}
		}
		// direct decision
		_, err := w.Router.GetCertificate(&tls.ClientHelloInfo{ServerName: sni})
		if (err == nil) != wantCert {
			fail("certificate-decision", "GetCertificate(%q): err=%v, expected certificate=%v (root-path service for that name: %q)", sni, err, wantCert, rootName)
			return
		}
		for _, hostHdr := range []string{sni, "t1.example", "x.wild.example"} {
			for _, p := range []string{"/", "/api/x"} {
				nreq++
				var claims [][2]string
				if nreq%3 == 0 {
					claims = [][2]string{{"X-Forwarded-Proto", "http"}, {"Forwarded", "proto=http"}}
				}
				r := w.Do(Req{ID: fmt.Sprintf("t%d", nreq), Host: hostHdr, Path: p, TLS: true, SNI: sni, Hdr: claims})
				if !wantCert {
					if r.Status != -1 {
						fail("handshake-for-unbound-name", "TLS handshake with SNI %q succeeded (status %d) although no TLS-enabled root-path service is bound to it", sni, r.Status)
						return
					}
					classes["handshake-refused"] = true
					continue
				}
				if r.Status == -1 {
					fail("handshake-failed", "TLS handshake with SNI %q failed (%s) although %s serves it with a static certificate", sni, r.Err, rootName)
					return
				}
				name := refRoute(tbl, hostHdr, p)
				if name == "" {
					if r.Status != 404 {
						fail("unrouted-not-404", "TLS request Host %s %s: no service, got %d", hostHdr, p, r.Status)
						return
					}
					continue
				}
				en, _ := effective(name)
				if !en {
					if r.Status != 503 || r.Target != "" {
						fail("tls-request-to-plain-service", "request over TLS (SNI %s) for Host %s %s reached service %s which has TLS off: status=%d target=%q, expected 503", sni, hostHdr, p, name, r.Status, r.Target)
						return
					}
					classes["tls-refused-503|root="+fmt.Sprint(isRoot(byName[name]))] = true
					if len(refusedCases) < 12 {
						refusedCases = append(refusedCases, [3]string{sni, hostHdr, p})
					}
				} else if r.Status != 200 || r.Target != "svc-"+name+":80" {
					fail("tls-request-not-forwarded", "request over TLS for Host %s %s to TLS service %s: status=%d target=%q", hostHdr, p, name, r.Status, r.Target)
					return
				} else {
					classes["tls-forwarded|root="+fmt.Sprint(isRoot(byName[name]))] = true
				}
			}
		}
	}
	// (b') the TLS policy comes before the pause gate: with every service paused, and then stopped,
	// the decisions that the policy makes are the same and immediate (C07: health-check requests get
	// their 200 "once the TLS policy of C16 has been applied")
	for _, state := range []string{"paused", "stopped"} {
		for _, sv := range final {
			var rec *CmdRec
			if state == "paused" {
				rec = w.Pause(sv.Name, time.Second, 5*time.Second)
			} else {
				rec = w.Stop(sv.Name, time.Second, "stopped for the TLS policy check")
			}
			if rec.Err != "" || rec.Panic != "" {
				fail("gate-command-failed", "%s %s: %s %s", state, sv.Name, rec.Err, rec.Panic)
				return
			}
		}
		for _, c := range redirCases {
			for _, path := range []string{c[1], "/up"} {
				nreq++
				want := c[2]
				if path == "/up" {
					want = "https://" + refHost(c[0]) + "/up"
					if refRoute(tbl, c[0], "/up") != refRoute(tbl, c[0], strings.SplitN(c[1], "?", 2)[0]) {
						continue // /up belongs to another service of that host
					}
				}
				r := w.Do(Req{ID: fmt.Sprintf("g%d", nreq), Host: c[0], Path: path})
				if r.Status != 301 || r.Header.Get("Location") != want || r.Target != "" || r.Done-r.Sent > Eps {
					fail("redirect-wrong:"+state, "plain request Host %q %s to a %s TLS+redirect service: status=%d Location=%q after %v, expected an immediate 301 to %q", c[0], path, state, r.Status, r.Header.Get("Location"), r.Done-r.Sent, want)
					return
				}
				classes["redirect-while-"+state] = true
			}
		}
		if state == "paused" {
			for _, c := range refusedCases {
				nreq++
				r := w.Do(Req{ID: fmt.Sprintf("g%d", nreq), Host: c[1], Path: c[2], TLS: true, SNI: c[0]})
				if r.Status != 503 || r.Target != "" || r.Done-r.Sent > Eps {
					fail("tls-request-to-plain-service:paused", "request over TLS (SNI %s) for Host %s %s to a paused service with TLS off: status=%d after %v, expected an immediate 503", c[0], c[1], c[2], r.Status, r.Done-r.Sent)
					return
				}
				classes["tls-refused-503-while-paused"] = true
			}
		}
	}
	for _, sv := range final {
		w.Resume(sv.Name)
	}
	// (c) automatic TLS is refused for wildcard hosts
	bad := Cmd{Kind: "deploy", Svc: "acmewild", Targets: []string{"svc-acmewild:80"}, Hosts: []string{"*.acme.example"}, TLS: "acme", DeployTO: 2 * time.Second, DrainTO: time.Second}
	if rec := bad.Exec(w, w.Router); rec.Err == "" {
		fail("acme-wildcard-accepted", "deploy with automatic TLS and host *.acme.example was accepted")
		return
	}
	// the same through a redeploy: an automatic-TLS service on a plain host, redeployed with the same
	// TLS settings and a wildcard host added
	first := Cmd{Kind: "deploy", Svc: "acmeplain", Targets: []string{"svc-acmeplain:80"}, Hosts: []string{"acme-plain.example"}, TLS: "acme", DeployTO: 2 * time.Second, DrainTO: time.Second}
	if rec := first.Exec(w, w.Router); rec.Err != "" {
		fail("deploy-failed", "deploy with automatic TLS on a plain host failed: %s", rec.Err)
		return
	}
	again := first
	again.Hosts = []string{"acme-plain.example", "*.acme-plain.example"}
	if rec := again.Exec(w, w.Router); rec.Err == "" {
		fail("acme-wildcard-accepted:redeploy", "redeploy adding the wildcard host *.acme-plain.example to an automatic-TLS service was accepted")
		return
	}
	w.Remove("acmeplain")
	// (d) names not bound to an automatic-TLS service never cause a certificate request
	w.mu.Lock()
	acmeDials := w.DialAttempts["acme.invalid:80"]
	w.mu.Unlock()
	hasACME := false
	for _, s := range sc.Services { // at any time of the scenario (the warm-up handshakes ran under the first configuration)
		hasACME = hasACME || s.TLS == "acme"
	}
	if !hasACME && acmeDials > 0 {
		fail("certificate-requested-for-unbound-name", "%d connection attempts to the ACME directory although no automatic-TLS service exists", acmeDials)
		return
	}
	run.Count("requests", nreq)
	for c := range classes {
		run.Class(sc.Build + "|" + c)
	}
	run.Sample(map[string]any{"scenario": sc, "requests": nreq})
}
