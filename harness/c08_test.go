package verifharness

// C08 A stopped service answers 503 with the operator's message until resumed.

import (
	"bufio"
	"fmt"
	"html"
	"math/rand/v2"
	"sort"
	"strings"
	"sync"
	"sync/atomic"
	"testing"
	"testing/synctest"
	"time"

	"github.com/basecamp/kamal-proxy/internal/server"
)

var c08Msgs = []string{
	"", "maintenance until 5pm", "<script>alert(1)</script>", "{{.}}", `{{template "x"}}`, `{{ .Message }}`, `"quoted" & 'single'`, "&amp; already &lt;escaped&gt;",
	"a\x00b", "emoji \U0001F600 and é", "line1\nline2\r\n", "</p></article><h1>x</h1>", "]] [[ C503[", "100% + more = \\", strings.Repeat("long<&> ", 8192),
}

type c08Scenario struct {
	Idx   int     `json:"idx"`
	Pages string  `json:"pages"`
	NT    int     `json:"n_targets"`
	Cmds  []tlCmd `json:"cmds"`
	Reqs  []tlReq `json:"reqs"`
	// Prefix: the service is deployed below this path prefix (with or without prefix stripping) and
	// every request path is spelled below it: "<prefix>/up" is then not the health-check path.
	Prefix string `json:"path_prefix"`
	Strip  bool   `json:"strip_prefix"`
}

func c08Gen(rng *rand.Rand, idx int) c08Scenario {
	sc := c08Scenario{Idx: idx, Pages: pick(rng, []string{"", "pages", "pages502", "pages503"}), NT: 1 + rng.IntN(2)}
	if idx%4 == 1 || idx%4 == 3 {
		sc.Prefix, sc.Strip = "/api", idx%4 == 1
	}
	kinds := []string{"stop", "stop", "stop", "pause", "resume", "resume", "deploy", "rollout-deploy", "rollout-set", "rollout-stop"}
	n := 3 + rng.IntN(8)
	sc.Cmds = tlGenCmds(rng, n, kinds, c08Msgs)
	for i := range sc.Cmds {
		if len(sc.Cmds[i].Msg) > 1000 && rng.IntN(3) != 0 {
			sc.Cmds[i].Msg = pick(rng, c08Msgs[:10])
		}
	}
	horizon := time.Duration(n+1) * time.Second
	nr := 4 + rng.IntN(20)
	for i := 0; i < nr; i++ {
		r := tlReq{ID: fmt.Sprintf("h%d", i), Method: pick(rng, []string{"GET", "GET", "POST", "HEAD"}), Path: pick(rng, []string{"/x", "/up", "/up/", "/UP", "/x/up"}), Cookie: rng.IntN(3) == 0}
		if r.Method == "POST" {
			r.Body = 10
		}
		r.At = 500*time.Millisecond + time.Duration(rng.Int64N(int64(horizon/(10*time.Millisecond))))*10*time.Millisecond + OffArrival
		if rng.IntN(5) == 0 {
			// placed: passes the gate just before a command and claims a target just after it, while a
			// slower request already in flight keeps that command's drain open
			c := pick(rng, sc.Cmds)
			r.Method, r.Path, r.Body = "GET", "/x", 0
			r.At = c.At - time.Duration(1+rng.IntN(5))*time.Millisecond + OffArrival
			r.D2 = time.Duration(1+rng.IntN(12))*time.Millisecond + OffHook
			if rng.IntN(2) == 0 {
				sc.Reqs = append(sc.Reqs, tlReq{ID: fmt.Sprintf("s%d", i), Method: "GET", Path: "/slow", At: r.At - 7*time.Millisecond, Lat: time.Duration(20+rng.IntN(50))*time.Millisecond + OffTarget})
			} // otherwise the targets are idle: the command's drain is over at once, well before the claim
		}
		sc.Reqs = append(sc.Reqs, r)
	}
	return sc
}

func TestC08(t *testing.T) {
	run := NewRun(t, "C08")
	defer run.Finish()
	n := run.N(600, 24000)
	for i := 0; i < n; i++ {
		sc := c08Gen(run.Rand(i), i)
		if !run.Mine(i, sc) {
			continue
		}
		synctest.Test(t, func(t *testing.T) { c08Run(t, run, sc) })
	}
	for k := 0; k < run.N(24, 600); k++ {
		desc := map[string]any{"idx": k, "kind": "overlapping-drains-then-resume"}
		if !run.Mine(n+k, desc) {
			continue
		}
		synctest.Test(t, func(t *testing.T) { c08Overlap(t, run, k, run.Rand(n+k)) })
	}
	for k := 0; k < run.N(6, 60); k++ {
		desc := map[string]any{"idx": k, "kind": "overlapping-first-deploys-then-gate-command"}
		if !run.Mine(n+5000+k, desc) {
			continue
		}
		synctest.Test(t, func(t *testing.T) { c08FirstDeploys(t, run, k, run.Rand(n+5000+k)) })
	}
	for k := 0; k < run.N(16, 320); k++ {
		desc := map[string]any{"idx": k, "kind": "gate-level-stop-pause-alternation"}
		if !run.Mine(n+11000+k, desc) {
			continue
		}
		c08GateHammer(run, k, run.Rand(n+11000+k))
	}
	for k := 0; k < run.N(16, 320); k++ {
		desc := map[string]any{"idx": k, "kind": "stop-pause-alternation-under-load"}
		if !run.Mine(n+9000+k, desc) {
			continue
		}
		synctest.Test(t, func(t *testing.T) { c08Hammer(t, run, k, run.Rand(n+9000+k)) })
	}
	for k := 0; k < run.N(8, 96); k++ {
		desc := map[string]any{"idx": k, "kind": "upload-in-progress-when-stopped", "side": []string{"rollout", "active"}[k%2], "rollout_stop_first": k%4 < 2, "cmd": []string{"stop", "pause"}[(k/4)%2]}
		if !run.Mine(n+7000+k, desc) {
			continue
		}
		synctest.Test(t, func(t *testing.T) { c08Upload(t, run, k, desc) })
	}
}

// c08GateHammer: the same alternation as c08Hammer, one level down and in real time: the gate of a
// service (the real PauseController, through its exported API only) is stopped, then `pause` and
// `stop <message i>` alternate in a tight loop while goroutines call Wait() the way requests do.
// The window in question is a few instructions wide and is met only under sustained contention on
// the controller's lock, which whole HTTP requests cannot produce. Oracle: a Wait that reports
// "stopped" hands out one of the messages issued so far (each is recorded before its stop is
// issued), and none reports "proceed" before the final resume has been issued (flag set before).
// A max-pause expiry cannot legitimately occur (one minute, the run takes milliseconds); one that
// is seen is counted, not judged.
func c08GateHammer(run *Run, idx int, rng *rand.Rand) {
	run.Eval()
	p := server.NewPauseController()
	var issued sync.Map
	msg := func(i int) string {
		m := fmt.Sprintf("gate %d-%d", idx, i)
		issued.Store(m, true)
		return m
	}
	p.Stop(msg(0))
	rounds := 2000 + rng.IntN(4000)
	waiters := 2 + rng.IntN(10)
	var resumed, done atomic.Bool
	var bad atomic.Pointer[string]
	var stopped, timedOut atomic.Int64
	var wg sync.WaitGroup
	for i := 0; i < waiters; i++ {
		wg.Add(1)
		go func() {
			defer wg.Done()
			for !done.Load() {
				wasResumed := resumed.Load()
				act, m := p.Wait()
				switch act {
				case server.PauseWaitActionStopped:
					stopped.Add(1)
					if _, ok := issued.Load(m); !ok {
						s := fmt.Sprintf("Wait() reported stopped with message %q, which no stop command has carried", m)
						bad.CompareAndSwap(nil, &s)
					}
				case server.PauseWaitActionProceed:
					if !wasResumed && !resumed.Load() {
						s := "Wait() reported proceed although no resume had been issued"
						bad.CompareAndSwap(nil, &s)
					}
				default:
					timedOut.Add(1)
				}
			}
		}()
	}
	var cmdErr error
	for i := 1; i <= rounds && bad.Load() == nil && cmdErr == nil; i++ {
		if cmdErr = p.Pause(time.Minute); cmdErr == nil {
			cmdErr = p.Stop(msg(i))
		}
	}
	resumed.Store(true)
	if err := p.Resume(); err != nil && cmdErr == nil {
		cmdErr = err
	}
	done.Store(true)
	wg.Wait()
	desc := map[string]any{"idx": idx, "rounds": rounds, "waiters": waiters}
	if cmdErr != nil {
		run.Violate("gate-command-failed", "pause/stop/resume on the gate failed: "+cmdErr.Error(), desc, nil)
		return
	}
	if s := bad.Load(); s != nil {
		sig := "gate:stopped-without-issued-message"
		if strings.Contains(*s, "proceed") {
			sig = "gate:proceed-while-never-resumed"
		}
		run.Violate(sig, fmt.Sprintf("gate stopped, then pause and stop <message i> alternated %d times against %d goroutines calling Wait(): %s", rounds, waiters, *s), desc, nil)
		return
	}
	run.Count("gate_waits_reporting_stopped", int(stopped.Load()))
	run.Count("gate_waits_timed_out_not_judged", int(timedOut.Load()))
	if stopped.Load() == 0 {
		return
	}
	run.Class(fmt.Sprintf("gate-hammer|waiters%d", waiters/3*3))
}

// c08Hammer: the service is stopped; the operator then alternates `pause` and `stop <message i>` without a break (each command
// is issued when the one before has returned; all of it at one virtual instant, so the commands and
// the requests race in real time on all cores) while clients send requests back to back. The service
// is never running between the first stop (returned before the first request) and the final resume, so no request can be forwarded in
// between, and every 503 comes from the stop gate: a request that finds the service stopped, or one
// that the pause held and the next stop released. Each such 503 must be the well-formed page with one
// of the messages the operator has issued - never an empty or foreign message (the state and the
// message belong together; reading them apart lets the next command's message, or none, slip in).
// Requests still held at the end are forwarded by the final resume a virtual second later.
func c08Hammer(t *testing.T, run *Run, idx int, rng *rand.Rand) {
	w := NewWorld(t, WorldOpt{})
	defer w.Close()
	run.Eval()
	const svc = "svc"
	to := DefTO
	to.HealthCheckConfig.Interval = 30 * time.Second
	nt := 1 + rng.IntN(2)
	var names []string
	for i := 0; i < nt; i++ {
		names = append(names, fmt.Sprintf("hm%d-t%d:80", idx%5, i))
		w.AddTarget(names[i], nil)
	}
	if c := w.Deploy(svc, names, server.ServiceOptions{TLSRedirect: true}, to, 5*time.Second, time.Second); c.Err != "" {
		run.Inconclusive("setup failed: %s", c.Err)
		return
	}
	rounds := 20 + rng.IntN(40)
	clients := 4 + rng.IntN(12)
	per := 10 + rng.IntN(30)
	msgs := map[string]bool{}
	T := 2 * time.Second
	var cmdsDone atomic.Bool
	msg := func(i int) string {
		m := fmt.Sprintf("maintenance %d-%d <b>&", idx, i)
		w.mu.Lock()
		msgs[m] = true
		w.mu.Unlock()
		return m
	}
	w.At(T-500*time.Millisecond, func() { w.Stop(svc, time.Second, msg(0)) }) // stopped before the first request is sent
	w.At(T, func() {
		for i := 1; i <= rounds; i++ {
			w.Pause(svc, time.Second, 100*time.Second)
			w.Stop(svc, time.Second, msg(i))
		}
		w.Pause(svc, time.Second, 100*time.Second)
		cmdsDone.Store(true)
	})
	tResume := T + time.Second
	w.At(tResume, func() { w.Resume(svc) })
	for c := 0; c < clients; c++ {
		c := c
		w.At(T, func() {
			for j := 0; j < per && !cmdsDone.Load(); j++ {
				w.Do(Req{ID: fmt.Sprintf("c%d-%d", c, j), Host: "c08.example", Path: "/x"})
			}
		})
	}
	w.Wait()
	fail := func(sig, format string, a ...any) {
		run.Violate(sig, fmt.Sprintf(format, a...), map[string]any{"idx": idx, "rounds": rounds, "clients": clients, "targets": nt}, func() []string { return w.Trace(120) })
	}
	for _, c := range w.Cmds {
		if c.Panic != "" || c.Err != "" {
			fail("command-failed:"+c.Name, "command %s %s failed: %s %s", c.Name, c.Args, c.Err, c.Panic)
			return
		}
	}
	n503, nfwd := 0, 0
	for _, r := range w.RespLog() {
		switch {
		case r.Status == 503:
			n503++
			ok := false
			why := ""
			for m := range msgs {
				if why = c08CheckBody(string(r.Body), m, ""); why == "" {
					ok = true
					break
				}
			}
			if !ok {
				fail("stopped-503-without-issued-message:stop-pause-alternation", "stop <message i> and pause alternated %d times at %v with no resume in between; request %s (sent %v) got a 503 at %v that carries none of the %d messages issued: %s", rounds, T, r.ID, r.Sent, r.Done, len(msgs), why)
				return
			}
		case r.Status == 200 && r.Target != "" && r.Done >= tResume:
			nfwd++
		default:
			fail(fmt.Sprintf("unexpected-outcome:stop-pause-alternation:got-%d", r.Status), "stop and pause alternated %d times at %v, final resume at %v; request %s (sent %v) got status=%d target=%q at %v err=%q: while stopped or paused it can only be answered 503 with a stop message or be forwarded by the resume", rounds, T, tResume, r.ID, r.Sent, r.Status, r.Target, r.Done, r.Err)
			return
		}
	}
	if n503 == 0 {
		run.Count("hammer_without_503", 1)
		return
	}
	run.Count("hammer_503_judged", n503)
	run.Count("hammer_forwarded_by_final_resume", nfwd)
	run.Class(fmt.Sprintf("hammer|nt%d|clients%d|fwd=%v", nt, clients/4*4, nfwd > 0))
}

// c08Upload: "nothing is forwarded to its targets" while stopped (paused), for a request that was
// admitted before: a client is still uploading its body to a service that buffers requests (the
// request has a target, nothing has been sent there yet) when the service is stopped (paused) with
// a drain timeout of 200ms; the client finishes its upload a second after the command has returned.
// The request belongs to the rollout side or to the active side, and `rollout stop` may have been
// issued in between. No target sees a request between the command's return and resume.
func c08Upload(t *testing.T, run *Run, idx int, desc any) {
	w := NewWorld(t, WorldOpt{})
	defer w.Close()
	w.MaxClientLife = time.Minute
	run.Eval()
	const svc = "svc"
	rolloutSide, stopRolloutFirst, cmd := idx%2 == 0, idx%4 < 2, []string{"stop", "pause"}[(idx/4)%2]
	w.AddTarget("a1-t0:80", nil)
	w.AddTarget("r1-t0:80", nil)
	to := DefTO
	to.BufferRequests, to.MaxMemoryBufferSize = true, 1<<20
	so := server.ServiceOptions{TLSRedirect: true, Hosts: []string{"c08.example"}}
	if c := w.Deploy(svc, []string{"a1-t0:80"}, so, to, 5*time.Second, time.Second); c.Err != "" {
		run.Inconclusive("setup failed: %s", c.Err)
		return
	}
	if c := w.RolloutDeploy(svc, []string{"r1-t0:80"}, 5*time.Second, time.Second); c.Err != "" {
		run.Inconclusive("setup failed: %s", c.Err)
		return
	}
	if c := w.RolloutSet(svc, 100, nil); c.Err != "" {
		run.Inconclusive("setup failed: %s", c.Err)
		return
	}
	conn, err := w.connect(false, "c08.example")
	if err != nil {
		run.Inconclusive("connect: %v", err)
		return
	}
	defer conn.Close()
	body := c13Bytes("c08up", idx, 3000)
	cookie := ""
	if rolloutSide {
		cookie = "Cookie: kamal-rollout=u1\r\n"
	}
	fmt.Fprintf(conn, "POST /upload HTTP/1.1\r\nHost: c08.example\r\nX-Request-Id: up%d\r\n%sContent-Length: %d\r\nConnection: close\r\n\r\n", idx, cookie, len(body))
	conn.Write(body[:1000])
	time.Sleep(time.Second)
	if stopRolloutFirst {
		w.RolloutStop(svc)
		time.Sleep(500 * time.Millisecond)
	}
	var rec *CmdRec
	if cmd == "stop" {
		rec = w.Stop(svc, 200*time.Millisecond, "closed")
	} else {
		rec = w.Pause(svc, 200*time.Millisecond, time.Minute)
	}
	if rec.Err != "" || rec.Panic != "" {
		run.Violate("command-failed:"+cmd, fmt.Sprintf("%s failed: %s %s", cmd, rec.Err, rec.Panic), desc, func() []string { return w.Trace(100) })
		return
	}
	time.Sleep(time.Second)
	conn.Write(body[1000:])
	status := -1
	if resp, rerr := readRawResponse(bufio.NewReader(conn), "POST"); rerr == nil {
		status = resp.Status()
	}
	conn.Close()
	time.Sleep(3 * time.Second)
	tResume := w.Now()
	w.Resume(svc)
	w.Wait()
	for _, tn := range []string{"a1-t0:80", "r1-t0:80"} {
		for _, q := range w.Target(tn).ReqLog() {
			if q.Recv > rec.Ret+Eps && q.Recv < tResume {
				run.Violate("forwarded-while-"+map[string]string{"stop": "stopped", "pause": "paused"}[cmd]+":upload-in-progress", fmt.Sprintf("%s returned at %v; at %v target %s received the request of a client that was still uploading when the command was issued (it finished its upload at %v and was answered %d); the next resume came at %v", cmd, rec.Ret, q.Recv, tn, rec.Ret+time.Second, status, tResume), desc, func() []string { return w.Trace(120) })
				return
			}
		}
	}
	run.Class(fmt.Sprintf("upload|%s|rollout-side=%v|rollout-stop-first=%v|status=%d", cmd, rolloutSide, stopRolloutFirst, status))
}

// c08FirstDeploys: "a service's running, paused or stopped state is unaffected by redeploying it",
// for the very first deploys of a service: two deploys of a new service overlap (one waits long for
// its targets), the quick one installs the service, the operator stops (pauses) it, then the slow
// one completes. The service is still stopped (paused) and says what the operator said.
func c08FirstDeploys(t *testing.T, run *Run, idx int, rng *rand.Rand) {
	w := NewWorld(t, WorldOpt{})
	defer w.Close()
	run.Eval()
	const svc = "svc"
	w.AddTarget("quick:80", nil)
	w.AddTarget("slow:80", func(n int, at time.Duration) ProbeAct {
		if n == 0 {
			return ProbeAct{Status: 200, Delay: 1500 * time.Millisecond}
		}
		return ProbeAct{Status: 200}
	})
	gate := pick(rng, []string{"stop", "pause"})
	T := time.Second
	var slowRec, quickRec, gateRec *CmdRec
	so := server.ServiceOptions{TLSRedirect: true}
	w.At(T, func() { slowRec = w.Deploy(svc, []string{"slow:80"}, so, DefTO, 5*time.Second, time.Second) })
	w.At(T+300*time.Millisecond, func() { quickRec = w.Deploy(svc, []string{"quick:80"}, so, DefTO, 5*time.Second, time.Second) })
	w.At(T+600*time.Millisecond, func() {
		if gate == "stop" {
			gateRec = w.Stop(svc, time.Second, "closed by the operator")
		} else {
			gateRec = w.Pause(svc, time.Second, 2*time.Second)
		}
	})
	w.GoReq(T+3*time.Second+OffArrival, Req{ID: "probe", Host: "c08.example", Path: "/x"})
	w.Wait()
	fail := func(sig, format string, a ...any) {
		run.Violate(sig, fmt.Sprintf(format, a...), map[string]any{"idx": idx, "gate": gate}, func() []string { return w.Trace(200) })
	}
	for _, c := range []*CmdRec{slowRec, quickRec, gateRec} {
		if c == nil || c.Err != "" || c.Panic != "" {
			run.Count("first_deploys_command_failed", 1)
			return // a failing overlapped deploy is C17's subject
		}
	}
	if gateRec.Issue < quickRec.Ret || slowRec.Ret < gateRec.Ret {
		run.Count("first_deploys_not_in_the_intended_order", 1)
		return
	}
	for _, r := range w.RespLog() {
		if r.ID != "probe" {
			continue
		}
		want := 503
		if gate == "pause" {
			want = 504 // held until its max-pause (2s)
		}
		if r.Status != want || r.Target != "" {
			fail("state-changed-by-overlapping-first-deploy:"+gate, "deploy (slow targets) and deploy (quick) of the new service overlapped; %s was acknowledged at %v, the slow deploy returned at %v; a request at %v got status=%d target=%q, expected %d from the proxy", gate, gateRec.Ret, slowRec.Ret, r.Sent, r.Status, r.Target, want)
			return
		}
		if gate == "stop" && !strings.Contains(string(r.Body), "closed by the operator") {
			fail("stop-message-lost-by-overlapping-first-deploy", "the 503 after the overlapping first deploys does not carry the operator's message: %q", trunc(string(r.Body), 120))
			return
		}
	}
	run.Class("first-deploys|" + gate)
}

// c08Overlap: "resume restores normal forwarding" after stop/pause commands whose drains overlap. A
// slow request is in flight; a first stop (or pause) waits for it, a second one is issued while the
// first is still waiting; the request ends, both return; resume; the next requests must be
// forwarded. No probe falls into the episode (interval 30s), so nothing else repairs the targets.
func c08Overlap(t *testing.T, run *Run, idx int, rng *rand.Rand) {
	w := NewWorld(t, WorldOpt{})
	defer w.Close()
	run.Eval()
	const svc = "svc"
	to := DefTO
	to.HealthCheckConfig.Interval = 30 * time.Second
	nt := 1 + rng.IntN(2)
	var names []string
	for i := 0; i < nt; i++ {
		names = append(names, fmt.Sprintf("ov%d-t%d:80", idx%5, i))
		w.AddTarget(names[i], nil)
	}
	if c := w.Deploy(svc, names, server.ServiceOptions{TLSRedirect: true}, to, 5*time.Second, time.Second); c.Err != "" {
		run.Inconclusive("setup failed: %s", c.Err)
		return
	}
	kinds := []string{pick(rng, []string{"pause", "stop"}), pick(rng, []string{"pause", "stop"})}
	if rng.IntN(3) == 0 {
		kinds = append(kinds, pick(rng, []string{"pause", "stop"}))
	}
	T := 2 * time.Second
	lat := time.Duration(1500+rng.IntN(1500)) * time.Millisecond
	for i := 0; i < nt+1; i++ { // one slow request per target at least
		w.GoReq(T-100*time.Millisecond+time.Duration(i)*time.Millisecond+OffArrival, Req{ID: fmt.Sprintf("slow%d", i), Host: "c08.example", Path: "/slow", Lat: lat + OffTarget})
	}
	recs := make([]*CmdRec, len(kinds))
	at := T
	for i, k := range kinds {
		i, k := i, k
		if i > 0 {
			at += time.Duration(200+rng.IntN(300)) * time.Millisecond // issued in this order: the last one is the one in force
		}
		w.At(at, func() {
			if k == "pause" {
				recs[i] = w.Pause(svc, 10*time.Second, 100*time.Second)
			} else {
				recs[i] = w.Stop(svc, 10*time.Second, "overlap")
			}
		})
	}
	tResume := T + 5*time.Second
	w.At(tResume, func() { w.Resume(svc) })
	for i := 0; i < 4; i++ {
		w.GoReq(tResume+time.Duration(i+1)*300*time.Millisecond+OffArrival, Req{ID: fmt.Sprintf("after%d", i), Host: "c08.example", Path: "/x"})
	}
	// requests that arrive when all of this has settled, before the resume: held and then forwarded
	// (last command a pause) or answered 503 at once (a stop)
	for i := 0; i < 3; i++ {
		w.GoReq(T+4*time.Second+time.Duration(i)*100*time.Millisecond+OffArrival, Req{ID: fmt.Sprintf("during%d", i), Host: "c08.example", Path: "/x"})
	}
	w.Wait()
	fail := func(sig, format string, a ...any) {
		run.Violate(sig, fmt.Sprintf(format, a...), map[string]any{"idx": idx, "commands": kinds, "slow_request": lat, "targets": nt}, func() []string { return w.Trace(200) })
	}
	overlapped := false
	for i, r := range recs {
		if r == nil || r.Err != "" || r.Panic != "" {
			fail("command-failed", "command %d (%s) failed: %+v", i, kinds[i], r)
			return
		}
		if i > 0 && r.Issue < recs[0].Ret {
			overlapped = true
		}
	}
	if !overlapped {
		run.Count("drains_did_not_overlap", 1)
		return
	}
	for _, r := range w.RespLog() {
		if strings.HasPrefix(r.ID, "during") {
			if kinds[len(kinds)-1] == "pause" && (r.Status != 200 || r.Target == "" || !near(r.Done, tResume)) {
				fail("held-request-not-forwarded:overlapping-drains", "%v were issued while a slow request kept the first one's drain open; request %s arrived at %v (paused) and got status=%d target=%q at %v, expected to be forwarded by the resume at %v", kinds, r.ID, r.Sent, r.Status, r.Target, r.Done, tResume)
				return
			}
			if kinds[len(kinds)-1] == "stop" && (r.Status != 503 || r.Done-r.Sent > Eps) {
				fail("stopped-request-not-refused:overlapping-drains", "%v were issued while a slow request kept the first one's drain open; request %s arrived at %v (stopped) and got status=%d at %v", kinds, r.ID, r.Sent, r.Status, r.Done)
				return
			}
		}
		if strings.HasPrefix(r.ID, "after") && (r.Status != 200 || r.Target == "") {
			fail("not-forwarded-after-resume:overlapping-drains", "%v were issued while a slow request kept the first one's drain open; after resume at %v request %s got status=%d target=%q", kinds, tResume, r.ID, r.Status, r.Target)
			return
		}
	}
	run.Class(fmt.Sprintf("overlap|%s|nt%d", strings.Join(kinds, "+"), nt))
}

// c08CheckBody verifies that body is the 503 page (custom when the service has a 503 template,
// built-in otherwise) with msg inserted exactly once as HTML-escaped text. The check does not
// reuse the code's escaper: the fragment must contain no markup characters and must unescape
// to the message.
func c08CheckBody(body, msg, pages string) string {
	var frag string
	switch pages {
	case "pages", "pages503":
		pre := "C503["
		if pages == "pages503" {
			pre = "ONLY503["
		}
		if !strings.HasPrefix(body, pre) || !strings.HasSuffix(body, "]") {
			return fmt.Sprintf("not the service's custom 503 page: %q", trunc(body, 80))
		}
		frag = body[len(pre) : len(body)-1]
	default:
		i, j := strings.Index(body, "<article>"), strings.Index(body, "</article>")
		if !strings.Contains(body, "<title>503") || i < 0 || j < i {
			return fmt.Sprintf("not the built-in 503 page: %q", trunc(body, 80))
		}
		art := strings.TrimSpace(body[i+len("<article>") : j])
		if msg == "" {
			if !strings.Contains(art, "temporarily unavailable") {
				return "built-in page without the default text for an empty message"
			}
			return ""
		}
		if !strings.HasPrefix(art, "<p>") || !strings.HasSuffix(art, "</p>") {
			return fmt.Sprintf("unexpected article content %q", trunc(art, 80))
		}
		frag = art[3 : len(art)-4]
	}
	if msg == "" && pages != "" && frag == "" {
		return ""
	}
	for _, c := range []string{"<", ">", "\"", "'"} {
		if strings.Contains(frag, c) {
			return fmt.Sprintf("message fragment contains raw %q: %q", c, trunc(frag, 80))
		}
	}
	for i := 0; i < len(frag); i++ {
		if frag[i] == '&' {
			k := strings.IndexByte(frag[i:], ';')
			if k < 2 || k > 10 {
				return fmt.Sprintf("bare ampersand in message fragment: %q", trunc(frag[i:], 40))
			}
		}
	}
	want := strings.ReplaceAll(msg, "\x00", "�") // NUL cannot be represented in HTML text
	if html.UnescapeString(frag) != want {
		return fmt.Sprintf("message fragment %q does not unescape to the operator's message %q", trunc(frag, 80), trunc(msg, 80))
	}
	return ""
}

func trunc(s string, n int) string {
	if len(s) > n {
		return s[:n] + "..."
	}
	return s
}

func c08Run(t *testing.T, run *Run, sc c08Scenario) {
	w := NewWorld(t, WorldOpt{})
	defer w.Close()
	const svc = "svc"
	so := server.ServiceOptions{TLSRedirect: true}
	if sc.Pages != "" {
		so.ErrorPagePath = Fixtures() + "/" + sc.Pages
	}
	hcPath := "/up"
	if sc.Prefix != "" {
		so.PathPrefixes, so.StripPrefix = []string{sc.Prefix}, sc.Strip
		hcPath = "\x00no request path is the health-check path"
	}
	mk := func(tag string, g int) []string {
		var out []string
		for i := 0; i < sc.NT; i++ {
			name := fmt.Sprintf("%s%d-t%d:80", tag, g, i)
			w.AddTarget(name, nil)
			out = append(out, name)
		}
		return out
	}
	if c := w.Deploy(svc, mk("a", 1), so, DefTO, 5*time.Second, time.Second); c.Err != "" {
		run.Inconclusive("setup failed: %s", c.Err)
		return
	}
	// a neighbour whose only target turns unhealthy: requests for it get the proxy's plain 503 (no
	// operator message) from the same built-in error pages, before and between the stops judged here
	w.AddTarget("neighbour-t:80", func(n int, at time.Duration) ProbeAct {
		if n == 0 {
			return ProbeAct{Status: 200}
		}
		return ProbeAct{Status: 500}
	})
	if c := w.Deploy("neighbour", []string{"neighbour-t:80"}, server.ServiceOptions{TLSRedirect: true, Hosts: []string{"neighbour.example"}}, DefTO, 5*time.Second, time.Second); c.Err != "" {
		run.Inconclusive("setup failed: %s", c.Err)
		return
	}
	for k := 0; k < 4; k++ {
		w.GoReq(1500*time.Millisecond+time.Duration(k)*2*time.Second+OffArrival, Req{ID: fmt.Sprintf("neighbour%d", k), Host: "neighbour.example", Path: "/"})
	}
	for _, c := range sc.Cmds {
		c := c
		w.At(c.At, func() {
			switch c.Kind {
			case "pause":
				w.Pause(svc, time.Second, c.Max)
			case "resume":
				w.Resume(svc)
			case "stop":
				w.Stop(svc, time.Second, c.Msg)
			case "deploy":
				names := mk("a", c.Gen)
				tlSlowFirstProbe(w, names, c.Slow)
				w.Deploy(svc, names, so, DefTO, 5*time.Second, time.Second)
			case "rollout-deploy":
				w.RolloutDeploy(svc, mk("r", c.Gen), 5*time.Second, time.Second)
			case "rollout-set":
				w.RolloutSet(svc, 100, nil)
			case "rollout-stop":
				w.RolloutStop(svc)
			}
		})
	}
	for _, r := range sc.Reqs {
		req := Req{ID: r.ID, Method: r.Method, Host: "c08.example", Path: sc.Prefix + r.Path, Body: tlBody(r.ID, r.Body), Lat: r.Lat}
		if r.D2 > 0 {
			// the request lingers either right after the gate or right before its claim (whatever the
			// code does in between - nothing of duration - is then on the far side of the delay)
			if len(r.ID)%2 == 0 {
				w.SetReqDelay(r.ID, "service.gate.passed", r.D2)
			} else {
				w.SetReqDelay(r.ID, "lb.claiming", r.D2)
			}
		}
		if r.Cookie {
			req.Hdr = [][2]string{{"Cookie", "kamal-rollout=u1"}}
		}
		w.GoReq(r.At, req)
	}
	w.Wait()

	run.Eval()
	fail := func(sig, format string, a ...any) {
		run.Violate(sig, fmt.Sprintf(format, a...), sc, func() []string { return w.Trace(200) })
	}
	for _, c := range w.Cmds {
		if c.Panic != "" || c.Err != "" {
			fail("command-failed:"+c.Name, "command %s failed: err=%q panic=%q", c.Name, c.Err, c.Panic)
			return
		}
	}
	resps := map[string]Resp{}
	for _, r := range w.RespLog() {
		resps[r.ID] = r
	}
	atTarget := map[string]bool{}
	for _, ft := range w.Targets {
		for _, q := range ft.ReqLog() {
			atTarget[q.ID] = true
		}
	}
	stoppedSeen, msgs := 0, map[string]bool{}
	for _, r := range sc.Reqs {
		got := resps[r.ID]
		st := tlStateAt(sc.Cmds, r.At, false)
		cands, tie := tlExpect(sc.Cmds, r, hcPath)
		if r.D2 > 0 {
			later := r
			later.At = r.At + r.D2 + Step
			c2, tie2 := tlExpect(sc.Cmds, later, hcPath)
			cands, tie = append(cands, c2...), tie || tie2
			run.Count("placed_checked", 1)
		}
		if tie {
			run.Count("ties_skipped", 1)
			continue
		}
		ok := false
		pageProblem := ""
		var why []string
		for _, e := range cands {
			why = append(why, fmt.Sprintf("%s@%v", e.Kind, e.At))
			switch e.Kind {
			case "fwd":
				sideOK := strings.HasPrefix(got.Target, e.Side+"-")
				if !sideOK && e.At-r.At > Eps {
					// held across a redeploy: which of the service's two current sides applies is not
					// fixed by the statement (same rule as C07, DESIGN section 11 item 2)
					after := tlStateAt(sc.Cmds, e.At, true)
					for _, c := range sc.Cmds {
						if c.Kind == "deploy" && c.At+c.Slow > r.At && c.At < e.At &&
							(strings.HasPrefix(got.Target, fmt.Sprintf("a%d-", after.Active)) || (after.Rollout > 0 && strings.HasPrefix(got.Target, fmt.Sprintf("r%d-", after.Rollout)))) {
							sideOK = true
						}
					}
				}
				ok = ok || (got.Status == 200 && sideOK && near(got.Done, e.At))
			case "504":
				ok = ok || (got.Status == 504 && near(got.Done, e.At))
			case "proxy200":
				ok = ok || (got.Status == 200 && got.Target == "" && near(got.Done, e.At))
			case "503":
				if got.Status == 503 && got.Target == "" && near(got.Done, e.At) {
					if atTarget[r.ID] {
						fail("forwarded-while-stopped", "request %s was answered 503 but also reached a target", r.ID)
						return
					}
					if r.Method != "HEAD" {
						// the page must carry the message in force for this candidate arrival instant
						if problem := c08CheckBody(string(got.Body), e.Msg, sc.Pages); problem != "" {
							pageProblem = fmt.Sprintf("service stopped with message %q, pages=%q: %s", trunc(e.Msg, 60), sc.Pages, problem)
							continue
						}
						msgs[trunc(e.Msg, 12)] = true
					}
					ok = true
					if st.State == "stopped" {
						stoppedSeen++
					}
				}
			}
		}
		if !ok && pageProblem != "" {
			fail("stop-page:"+sc.Pages, "request %s: %s", r.ID, pageProblem)
			return
		}
		if !ok {
			sig := fmt.Sprintf("outcome:%s:%s:want-%s:got-%d", st.State, r.Method, cands[0].Kind, got.Status)
			fail(sig, "request %s (%s %s at %v, service %s): got status=%d target=%q at %v; allowed %v", r.ID, r.Method, r.Path, r.At, st.State, got.Status, got.Target, got.Done, why)
			return
		}
		if st.State == "stopped" && atTarget[r.ID] {
			fail("forwarded-while-stopped", "request %s arrived while the service was stopped and reached a target", r.ID)
			return
		}
	}
	// nothing reaches a target between the return of a stop (pause) and the next resume, whenever
	// the request came in (health-check requests are answered by the proxy and never get there)
	{
		type span struct {
			kind     string
			from, to time.Duration
		}
		var spans []span
		cmds := append([]*CmdRec{}, w.Cmds...)
		sort.Slice(cmds, func(i, j int) bool { return cmds[i].Issue < cmds[j].Issue })
		for i, c := range cmds {
			if (c.Name != "stop" && c.Name != "pause") || c.Err != "" {
				continue
			}
			sp := span{kind: c.Name, from: c.Ret, to: time.Duration(1<<62 - 1)}
			for _, d := range cmds[i+1:] {
				if d.Name == "resume" {
					sp.to = d.Issue
					break
				}
			}
			spans = append(spans, sp)
		}
		for _, ft := range w.Targets {
			for _, q := range ft.ReqLog() {
				for _, sp := range spans {
					if q.Recv > sp.from+Step && q.Recv < sp.to {
						fail("forwarded-while-"+map[string]string{"stop": "stopped", "pause": "paused"}[sp.kind], "request %s reached target %s at %v: %s had returned at %v and the next resume was issued at %v", q.ID, ft.Name, q.Recv, sp.kind, sp.from, sp.to)
						return
					}
				}
			}
		}
	}
	run.Count("requests_checked", len(sc.Reqs))
	run.Count("answered_while_stopped", stoppedSeen)
	for _, d := range sc.Cmds {
		for _, c := range sc.Cmds {
			if d.Slow > 0 && c.At > d.At && c.At < d.At+d.Slow {
				run.Count("commands_acknowledged_during_a_deploy:"+c.Kind, 1)
			}
		}
	}
	if stoppedSeen > 0 {
		var cs []string
		for _, c := range sc.Cmds {
			cs = append(cs, c.Kind[:2])
		}
		var ms []string
		for m := range msgs {
			ms = append(ms, m)
		}
		run.Class(fmt.Sprintf("pages=%s|%s|msgs=%d", sc.Pages, strings.Join(cs, ""), len(ms)))
	}
	var sample []string
	for _, c := range sc.Cmds {
		sample = append(sample, fmt.Sprintf("%v %s %q", c.At, c.Kind, trunc(c.Msg, 40)))
	}
	run.Sample(map[string]any{"pages": sc.Pages, "cmds": sample, "requests": len(sc.Reqs), "answered_while_stopped": stoppedSeen})
}
