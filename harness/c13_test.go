package verifharness

// C13 Requests and responses pass through unaltered.

import (
	"bufio"
	"bytes"
	"compress/gzip"
	"fmt"
	"math/rand/v2"
	"net"
	"net/http"
	"net/http/httptest"
	"os"
	"strings"
	"sync"
	"sync/atomic"
	"testing"
	"testing/synctest"
	"time"

	"github.com/basecamp/kamal-proxy/internal/server"
)

type c13Case struct {
	ID      int         `json:"id"`
	Svc     string      `json:"svc"`              // root | app (strip) | raw (no strip) | fwd | fwdapp | tls
	Pfx     string      `json:"prefix,omitempty"` // the prefix of the service this request goes through (services with prefix stripping)
	TLS     bool        `json:"tls"`
	Method  string      `json:"method"`
	Path    string      `json:"path"`  // as sent, including the service prefix
	Query   string      `json:"query"` // including the leading ? when present
	Hdr     [][2]string `json:"headers"`
	Body    int         `json:"body"`
	Chunks  int         `json:"chunks"`
	RStatus int         `json:"resp_status"`
	RHdr    [][2]string `json:"resp_headers"`
	RBody   int         `json:"resp_body"`
	RFrame  string      `json:"resp_framing"` // cl | chunked | close
	// Drop: the target closes the (reused) connection after reading this request, once; the proxy's
	// transport may retry a replayable request on a new connection
	Drop bool `json:"drop_reused_connection,omitempty"`
	// Hints: the target sends this many 103 Early Hints responses before its final one; a request
	// with "Expect: 100-continue" additionally gets a 100 Continue from the target.
	Hints int `json:"early_hints,omitempty"`
	// SlowDown / SlowUp: the response (request) body takes 40 virtual seconds to send - longer than
	// the 30s target timeout, which bounds the wait for the response *headers* only
	// CutBody: the target dies in the middle of a chunked response body: the client must not be
	// given a response that looks complete
	CutBody  bool `json:"target_dies_mid_body,omitempty"`
	SlowDown bool `json:"slow_response_body,omitempty"`
	SlowUp   bool `json:"slow_request_body,omitempty"`
}

type c13Scenario struct {
	Idx   int       `json:"idx"`
	Cases []c13Case `json:"cases"`
}

const c13Pchar = "abcdefghijklmnopqrstuvwxyzABCDEFGHIJKLMNOPQRSTUVWXYZ0123456789-._~!$&'()*+,;=:@"

func c13Segment(rng *rand.Rand) string {
	n := rng.IntN(8)
	var b strings.Builder
	for i := 0; i < n; i++ {
		switch rng.IntN(10) {
		case 0:
			b.WriteString(pick(rng, []string{"%2F", "%2f", "%41", "%20", "%00", "%E2%9C%93", "%25", "%3F", "%23", "%7e", "%2E%2E"}))
		default:
			b.WriteByte(c13Pchar[rng.IntN(len(c13Pchar))])
		}
	}
	return b.String()
}

func c13Path(rng *rand.Rand) string {
	n := rng.IntN(5)
	var segs []string
	for i := 0; i < n; i++ {
		s := c13Segment(rng)
		switch rng.IntN(12) {
		case 0:
			s = "" // repeated slash
		case 1:
			s = "app" // the prefix itself as a later segment
		}
		segs = append(segs, s)
	}
	p := "/" + strings.Join(segs, "/")
	if rng.IntN(4) == 0 {
		p += "/"
	}
	return p
}

func c13Query(rng *rand.Rand) string {
	switch rng.IntN(6) {
	case 0:
		return ""
	case 1:
		return "?"
	}
	const qc = "abcXYZ019-._~!$'()*+,;=:@/?&"
	n := 1 + rng.IntN(30)
	var b strings.Builder
	b.WriteByte('?')
	for i := 0; i < n; i++ {
		switch rng.IntN(12) {
		case 0:
			b.WriteString(pick(rng, []string{"%zz", "%", "%2", "&&", "a=b;c=d", "=x", "%26", "%3D", "+", "%20"}))
		default:
			b.WriteByte(qc[rng.IntN(len(qc))])
		}
	}
	return b.String()
}

func c13HeaderValue(rng *rand.Rand) string {
	switch rng.IntN(8) {
	case 0:
		return ""
	case 1:
		return "caf\xe9 obs-text \xff"
	case 2:
		return strings.Repeat("v", 4096+rng.IntN(4096))
	case 3:
		return `quoted "value", with; separators=1`
	}
	return fmt.Sprintf("v%d", rng.IntN(100000))
}

func c13Gen(rng *rand.Rand, idx, ncases int) c13Scenario {
	sc := c13Scenario{Idx: idx}
	for i := 0; i < ncases; i++ {
		c := c13Case{ID: i, Svc: pick(rng, []string{"root", "app", "app", "raw", "fwd", "fwdapp", "tls", "buf", "buf"})}
		c.Method = pick(rng, []string{"GET", "GET", "POST", "PUT", "DELETE", "PATCH", "OPTIONS", "HEAD", "PURGE", "M-SEARCH"})
		rest := c13Path(rng)
		switch c.Svc {
		case "app", "fwdapp":
			c.Pfx = "/app"
			if c.Svc == "app" && i%2 == 1 {
				c.Pfx = "/app2/v2" // the service has two prefixes: what is stripped is the one this request matched
			}
			c.Path = c.Pfx + rest
			if rng.IntN(10) == 0 {
				c.Path = c.Pfx // the bare prefix
			}
		case "raw":
			c.Path = "/raw" + rest
		default:
			c.Path = rest
			if strings.HasPrefix(rest, "/app/") || rest == "/app" || strings.HasPrefix(rest, "/raw/") || rest == "/raw" || strings.HasPrefix(rest, "/app2/") {
				c.Path = "/x" + rest
			}
		}
		c.TLS = c.Svc == "tls" && rng.IntN(2) == 0
		c.Query = c13Query(rng)
		nh := rng.IntN(12)
		if rng.IntN(10) == 0 {
			nh = 30
		}
		for j := 0; j < nh; j++ {
			name := pick(rng, []string{"X-A", "X-B", "x-lower", "X-MiXeD-Case", "Accept", "Accept-Language", "Cookie", "Authorization", "Referer", "X-Custom-" + fmt.Sprint(rng.IntN(5)), "If-None-Match", "Cache-Control"})
			c.Hdr = append(c.Hdr, [2]string{name, c13HeaderValue(rng)})
		}
		if rng.IntN(3) == 0 {
			c.Hdr = append(c.Hdr, [2]string{"User-Agent", "verif-client/1.0"})
		}
		if rng.IntN(3) == 0 {
			c.Hdr = append(c.Hdr, [2]string{"Accept-Encoding", pick(rng, []string{"gzip", "gzip, deflate, br", "identity", "br"})})
		}
		if rng.IntN(3) == 0 {
			c.Hdr = append(c.Hdr, [2]string{"X-Forwarded-For", pick(rng, []string{"1.2.3.4", "1.2.3.4, 5.6.7.8"})})
			if rng.IntN(2) == 0 {
				c.Hdr = append(c.Hdr, [2]string{"X-Forwarded-For", "9.9.9.9"})
			}
		}
		if rng.IntN(4) == 0 {
			c.Hdr = append(c.Hdr, [2]string{"X-Forwarded-Proto", pick(rng, []string{"https", "ftp"})})
		}
		if rng.IntN(4) == 0 {
			c.Hdr = append(c.Hdr, [2]string{"X-Forwarded-Host", "spoofed.example"})
		}
		if rng.IntN(3) == 0 {
			id := fmt.Sprintf("client-id-%d-%d", idx, i)
			if rng.IntN(3) == 0 { // a long id (a trace id that grew over several hops): 200..4000 bytes, around the usual caps of 255 and 1024
				n := pick(rng, []int{200, 254, 255, 256, 257, 300, 1023, 1024, 1025, 2000, 4000})
				id += "-" + strings.Repeat("0123456789abcdef/+=.", n/20+1)[:n-len(id)-1]
			}
			c.Hdr = append(c.Hdr, [2]string{"X-Request-Id", id})
		}
		if rng.IntN(6) == 0 {
			c.Hdr = append(c.Hdr, [2]string{"X-Request-Start", "t=12345"})
		}
		if c.Method != "GET" && c.Method != "HEAD" && c.Method != "OPTIONS" || rng.IntN(6) == 0 {
			c.Body = pick(rng, []int{0, 1, 17, 1000, 4096, 65536, 262144})
			if c.Body > 0 && rng.IntN(2) == 0 {
				c.Chunks = 1 + rng.IntN(5)
			}
		}
		c.RStatus = pick(rng, []int{200, 200, 200, 201, 202, 204, 301, 302, 304, 400, 401, 403, 404, 409, 418, 422, 429, 500, 502, 503, 504, 599})
		for j := 0; j < rng.IntN(6); j++ {
			c.RHdr = append(c.RHdr, [2]string{pick(rng, []string{"Set-Cookie", "Set-Cookie", "X-Resp-A", "Cache-Control", "Vary", "Location", "X-Powered-By", "Etag", "Content-Language"}), c13HeaderValue(rng)})
		}
		if c.RStatus != 204 && c.RStatus != 304 {
			c.RBody = pick(rng, []int{0, 1, 23, 1000, 32768, 200000})
			c.RFrame = pick(rng, []string{"cl", "cl", "chunked", "close"})
			if rng.IntN(2) == 0 {
				c.RHdr = append(c.RHdr, [2]string{"Content-Type", pick(rng, []string{"text/plain", "application/octet-stream", "application/json; charset=utf-8"})})
			}
		}
		if rng.IntN(5) == 0 {
			c.Hints = 1 + rng.IntN(2)
		}
		if rng.IntN(8) == 0 {
			c.SlowDown = c.RBody >= 3
		}
		if rng.IntN(10) == 0 && c.RFrame == "chunked" && c.RBody >= 23 && c.Method != "HEAD" && c.Svc != "buf" {
			c.CutBody, c.SlowDown = true, false
		}
		if rng.IntN(8) == 0 {
			c.SlowUp = c.Body >= 3
		}
		if c.Body > 0 && rng.IntN(5) == 0 {
			c.Hdr = append(c.Hdr, [2]string{"Expect", "100-continue"})
		}
		if c.Svc == "buf" {
			c.Path = "/x" + rest
			c.TLS = false
			if rng.IntN(2) == 0 && c.Method != "HEAD" {
				c.Drop = true
				c.Hdr = append(c.Hdr, [2]string{"Idempotency-Key", fmt.Sprintf("k-%d-%d", idx, i)})
				if c.Body == 0 {
					c.Body = pick(rng, []int{17, 1000, 70000})
				}
				c.Chunks = rng.IntN(3)
			}
		}
		sc.Cases = append(sc.Cases, c)
	}
	return sc
}

func c13Bytes(tag string, id, n int) []byte {
	if n == 0 {
		return nil
	}
	seed := []byte(fmt.Sprintf("%s-%d|", tag, id))
	b := bytes.Repeat(seed, n/len(seed)+1)[:n]
	for i := 0; i < n; i += 97 { // make it incompressible-ish and non-text in places
		b[i] = byte(i*31 + id)
	}
	return b
}

func TestC13(t *testing.T) {
	run := NewRun(t, "C13")
	defer run.Finish()
	n := run.N(64, 1600)
	per := run.N(100, 150)
	for i := 0; i < n; i++ {
		sc := c13Gen(run.Rand(i), i, per)
		if !run.Mine(i, map[string]any{"idx": i, "cases": per}) {
			continue
		}
		synctest.Test(t, func(t *testing.T) { c13Run(t, run, sc) })
	}
	for k := 0; k < run.N(16, 400); k++ {
		desc := map[string]any{"idx": k, "kind": "bounced-by-a-draining-target-then-forwarded"}
		if !run.Mine(n+k, desc) {
			continue
		}
		synctest.Test(t, func(t *testing.T) { c13Bounced(t, run, k, run.Rand(n+k)) })
	}
	for k := 0; k < run.N(1, 4); k++ { // the thorough tier repeats it: its reach is a matter of volume
		if desc := map[string]any{"kind": "request-ids-under-load", "round": k}; run.Mine(n+9000+k, desc) {
			c13Load(t, run, desc)
		}
	}
}

// c13Load: "every forwarded request carries X-Request-ID (the client's, else a fresh unique one)".
// Uniqueness is a statement about many requests at once: real time, the proxy's whole handler chain
// called in-process by 32 clients without rest for two seconds (every fourth request brings its own
// id), two real loopback targets that note the id of everything they receive. No generated id
// reaches a target twice, every client-supplied id arrives as sent.
func c13Load(t *testing.T, run *Run, desc any) {
	run.Eval()
	RestoreHTTPDefaults()
	dir, err := os.MkdirTemp("", "vh-c13-")
	if err != nil {
		run.Inconclusive("tempdir: %v", err)
		return
	}
	defer os.RemoveAll(dir)
	var mu sync.Mutex
	seen := map[string]int{}
	missing := 0
	mk := func() *httptest.Server {
		return httptest.NewServer(http.HandlerFunc(func(w http.ResponseWriter, r *http.Request) {
			if r.URL.Path != "/up" {
				id := r.Header.Get("X-Request-Id")
				mu.Lock()
				if id == "" {
					missing++
				}
				seen[id]++
				mu.Unlock()
			}
			w.Write([]byte("ok"))
		}))
	}
	a, b := mk(), mk()
	defer a.Close()
	defer b.Close()
	cfg := &server.Config{AlternateConfigDir: dir, HttpPort: 80, HttpsPort: 443}
	router := server.NewRouter(cfg.StatePath())
	srv := server.NewServer(cfg, router)
	h := server.VerifHandler(srv)
	to := server.TargetOptions{HealthCheckConfig: server.HealthCheckConfig{Path: "/up", Interval: time.Second, Timeout: 5 * time.Second}, ResponseTimeout: 10 * time.Second}
	addr := func(s *httptest.Server) string { return strings.TrimPrefix(s.URL, "http://") }
	if err := router.DeployService("svc", []string{addr(a), addr(b)}, server.ServiceOptions{}, to, 10*time.Second, 5*time.Second); err != nil {
		run.Inconclusive("deploy: %v", err)
		return
	}
	var stop atomic.Bool
	var total, own, bad atomic.Int64
	var wg sync.WaitGroup
	for c := 0; c < 32; c++ {
		wg.Add(1)
		go func() {
			defer wg.Done()
			for k := 0; !stop.Load(); k++ {
				req := httptest.NewRequest("GET", "http://load.example/x", nil)
				if k%4 == 3 {
					req.Header.Set("X-Request-Id", fmt.Sprintf("client-%d-%d", c, k))
					own.Add(1)
				}
				rec := httptest.NewRecorder()
				h.ServeHTTP(rec, req)
				total.Add(1)
				if rec.Code != 200 {
					bad.Add(1)
				}
			}
		}()
	}
	time.Sleep(2 * time.Second)
	stop.Store(true)
	wg.Wait()
	router.RemoveService("svc")
	mu.Lock()
	defer mu.Unlock()
	run.Count("load_requests", int(total.Load()))
	run.Count("load_distinct_ids_at_the_targets", len(seen))
	if bad.Load() > 0 || total.Load() < 2000 {
		run.Inconclusive("load scenario unusable: %d requests, %d not answered 200", total.Load(), bad.Load())
		return
	}
	if missing > 0 {
		run.Violate("request-id-missing:under-load", fmt.Sprintf("%d of %d forwarded requests reached a target without X-Request-Id", missing, total.Load()), desc, nil)
		return
	}
	dups, first, clientSeen := 0, "", 0
	for id, n := range seen {
		if strings.HasPrefix(id, "client-") {
			clientSeen++
		}
		if n > 1 {
			dups += n - 1
			if first == "" {
				first = fmt.Sprintf("%q reached the targets %d times", id, n)
			}
		}
	}
	if dups > 0 {
		run.Violate("request-id-not-unique:under-load", fmt.Sprintf("%d of %d requests sent by 32 concurrent clients reached a target with an X-Request-Id that another request carried too; first: %s", dups, total.Load(), first), desc, nil)
		return
	}
	if int64(clientSeen) != own.Load() {
		run.Violate("client-request-id-replaced:under-load", fmt.Sprintf("%d requests brought their own X-Request-Id, %d of those ids arrived at the targets", own.Load(), clientSeen), desc, nil)
		return
	}
	run.Class("load|request-ids")
}

// c13Bounced: a request that passed the pause gate, was turned away by a draining target (a pause
// had begun meanwhile), went back to the gate, and is forwarded after resume - its response is the
// target's, unaltered, like any other (a streamed body without Content-Length, so that nothing a
// middleware might add afterwards is cut off by the framing).
func c13Bounced(t *testing.T, run *Run, idx int, rng *rand.Rand) {
	w := NewWorld(t, WorldOpt{})
	defer w.Close()
	run.Eval()
	const svc = "svc"
	w.AddTarget("b0:80", nil)
	so := DefSO
	if rng.IntN(2) == 0 {
		so.ErrorPagePath = Fixtures() + "/pagesboth"
	}
	if c := w.Deploy(svc, []string{"b0:80"}, so, DefTO, 5*time.Second, time.Second); c.Err != "" {
		run.Inconclusive("setup: %s", c.Err)
		return
	}
	T := time.Second
	gate := pick(rng, []string{"pause", "pause", "stop-then-resume"})
	w.GoReq(T-10*time.Millisecond+OffArrival, Req{ID: "slow", Host: "c13.example", Path: "/slow", Lat: time.Duration(150+rng.IntN(200))*time.Millisecond + OffTarget})
	n := 1 + rng.IntN(4)
	for k := 0; k < n; k++ {
		id := fmt.Sprintf("b%d", k)
		w.SetReqDelay(id, "service.gate.passed", time.Duration(20+rng.IntN(40))*time.Millisecond+OffHook)
		w.GoReq(T-time.Duration(1+rng.IntN(6))*time.Millisecond+OffArrival, Req{ID: id, Host: "c13.example", Path: "/stream", Mode: "stream", Gap: 30 * time.Millisecond})
	}
	w.At(T, func() { w.Pause(svc, 5*time.Second, 100*time.Second) })
	w.At(T+time.Second, func() { w.Resume(svc) })
	_ = gate
	w.Wait()
	bounced := 0
	for _, h := range w.Hooks {
		if h.Point == "lb.claimed" && strings.HasPrefix(h.Req, "b") && strings.Contains(h.Extra, "err=") {
			bounced++
		}
	}
	for _, r := range w.RespLog() {
		if !strings.HasPrefix(r.ID, "b") {
			continue
		}
		if r.Status != 200 || r.Target != "b0:80" || string(r.Body) != "part1part2" {
			run.Violate("response-altered:bounced-request", fmt.Sprintf("request %s passed the gate, was turned away by the draining target when pause began, and was forwarded after resume: status=%d target=%q body %d bytes %q (the target sent \"part1part2\")", r.ID, r.Status, r.Target, len(r.Body), trunc(string(r.Body), 80)), map[string]any{"idx": idx, "requests": n}, func() []string { return w.Trace(200) })
			return
		}
	}
	if bounced == 0 {
		run.Count("bounce_not_reached", 1)
		return
	}
	run.Class(fmt.Sprintf("bounced|n%d|pages=%v", n, so.ErrorPagePath != ""))
}

type c13Echo struct {
	mu       sync.Mutex
	dropped  map[int]bool
	attempts map[int][]*RawMsg // every delivery of the case's request the target saw
	got      map[int]*RawMsg
	sent     map[int]*RawMsg // what the target put on the wire
	cases    map[int]c13Case
}

func (e *c13Echo) serve(ft *FakeTarget, c net.Conn) {
	br := bufio.NewReader(c)
	served := 0
	for {
		m, err := readRawRequest(br)
		if err != nil {
			return
		}
		var id int
		fmt.Sscanf(m.First("X-Case"), "%d", &id)
		e.mu.Lock()
		cs := e.cases[id]
		if cs.Drop && served > 0 && !e.dropped[id] {
			// first delivery on a kept-alive connection: read it, then die without answering
			e.dropped[id] = true
			e.attempts[id] = append(e.attempts[id], m)
			e.mu.Unlock()
			ft.w.sleep(OffTarget)
			return
		}
		e.got[id] = m
		e.attempts[id] = append(e.attempts[id], m)
		e.mu.Unlock()
		served++
		method := strings.Fields(m.Line)[0]
		if !ft.w.sleep(OffTarget) { // a real target does not answer in zero time (DESIGN.md section 11)
			return
		}
		body := c13Bytes("resp", id, cs.RBody)
		hdr := append([][2]string{}, cs.RHdr...)
		// a real server negotiates: gzip only when the request it received asks for it
		if len(body) > 0 && strings.Contains(strings.Join(m.Get("Accept-Encoding"), ","), "gzip") {
			var zb bytes.Buffer
			zw := gzip.NewWriter(&zb)
			zw.Write(body)
			zw.Close()
			body = zb.Bytes()
			hdr = append(hdr, [2]string{"Content-Encoding", "gzip"})
		}
		sent := &RawMsg{Line: fmt.Sprintf("HTTP/1.1 %d Status", cs.RStatus), Hdr: hdr, Body: body}
		e.mu.Lock()
		e.sent[id] = sent
		e.mu.Unlock()
		noBody := method == "HEAD" || cs.RStatus == 204 || cs.RStatus == 304
		chunks := 0
		wire := append([][2]string{}, hdr...)
		switch {
		case noBody:
			if cs.RStatus != 204 && cs.RStatus != 304 {
				wire = append(wire, [2]string{"Content-Length", fmt.Sprint(len(body))})
			}
			body = nil
		case cs.RFrame == "chunked":
			chunks = 1 + id%4
			if len(body) == 0 {
				chunks = 0
				wire = append(wire, [2]string{"Content-Length", "0"})
			}
		case cs.RFrame == "close":
			wire = append(wire, [2]string{"Connection", "close"})
		default:
			wire = append(wire, [2]string{"Content-Length", fmt.Sprint(len(body))})
		}
		// informational responses first (the final status must still be the one the client gets)
		if strings.EqualFold(m.First("Expect"), "100-continue") {
			fmt.Fprintf(c, "HTTP/1.1 100 Continue\r\n\r\n")
		}
		for i := 0; i < cs.Hints; i++ {
			fmt.Fprintf(c, "HTTP/1.1 103 Early Hints\r\nLink: </style-%d.css>; rel=preload\r\n\r\n", i)
		}
		if cs.CutBody && !noBody {
			var msg bytes.Buffer
			writeRaw(&msg, sent.Line, wire, body, 3)
			b := msg.Bytes()
			c.Write(b[:len(b)-len(body)/2-10]) // stops inside a chunk, then the connection goes away
			return
		}
		if cs.SlowDown && !noBody {
			var msg bytes.Buffer
			writeRaw(&msg, sent.Line, wire, body, chunks)
			if err := writeTrickled(c, msg.Bytes(), 20*time.Second, ft.w.sleep); err != nil {
				return
			}
		} else if err := writeRaw(c, sent.Line, wire, body, chunks); err != nil {
			return
		}
		if cs.RFrame == "close" && !noBody {
			return
		}
	}
}

func c13Run(t *testing.T, run *Run, sc c13Scenario) {
	w := NewWorld(t, WorldOpt{TLSListener: true})
	defer func() { w.Close() }()
	run.Eval()
	echo := &c13Echo{got: map[int]*RawMsg{}, sent: map[int]*RawMsg{}, cases: map[int]c13Case{}, dropped: map[int]bool{}, attempts: map[int][]*RawMsg{}}
	for _, c := range sc.Cases {
		echo.cases[c.ID] = c
	}
	ft := w.AddTarget("echo:80", nil)
	ft.RawServe = echo.serve
	fix := Fixtures()
	dep := func(name string, so server.ServiceOptions, fwd bool) bool {
		to := DefTO
		to.ForwardHeaders = fwd
		so.TLSRedirect = false
		if c := w.Deploy(name, []string{"echo:80"}, so, to, 5*time.Second, time.Second); c.Err != "" {
			run.Inconclusive("setup deploy %s: %s", name, c.Err)
			return false
		}
		return true
	}
	if !dep("root", server.ServiceOptions{}, false) ||
		!dep("app", server.ServiceOptions{PathPrefixes: []string{"/app", "/app2/v2"}, StripPrefix: true}, false) ||
		!dep("raw", server.ServiceOptions{PathPrefixes: []string{"/raw"}, StripPrefix: false}, false) ||
		!dep("fwd", server.ServiceOptions{Hosts: []string{"fwd.example"}}, true) ||
		!dep("fwdapp", server.ServiceOptions{Hosts: []string{"fwd.example"}, PathPrefixes: []string{"/app"}, StripPrefix: true}, true) ||
		!depBuf(w, run) ||
		!dep("tls", server.ServiceOptions{Hosts: []string{"tls.example"}, TLSEnabled: true, TLSCertificatePath: fix + "/cert.pem", TLSPrivateKeyPath: fix + "/key.pem"}, false) {
		return
	}
	if sc.Idx%3 == 2 {
		// the proxy is restarted before it forwards anything: what the statement says of a service's
		// settings (prefix stripping on or off, header forwarding, buffering) holds for a proxy that
		// read them from its state file as for the one that was given them
		dir := w.CopyState()
		w.Close()
		w = NewWorld(t, WorldOpt{TLSListener: true, StateDir: dir})
		w.AddTarget("echo:80", nil).RawServe = echo.serve
		if err := w.Router.RestoreLastSavedState(); err != nil {
			run.Violate("restore-failed", fmt.Sprintf("RestoreLastSavedState: %v", err), sc, nil)
			return
		}
		run.Count("scenarios_served_by_a_restored_proxy", 1)
	}
	hostOf := map[string]string{"buf": "buf.example", "root": "plain.example", "app": "plain.example:8080", "raw": "plain.example", "fwd": "fwd.example", "fwdapp": "fwd.example", "tls": "tls.example"}
	seenIDs := map[string]int{}
	for _, cs := range sc.Cases {
		host := hostOf[cs.Svc]
		hdr := append([][2]string{{"Host", host}, {"X-Case", fmt.Sprint(cs.ID)}}, cs.Hdr...)
		body := c13Bytes("req", cs.ID, cs.Body)
		if cs.Chunks == 0 && (cs.Body > 0 || cs.Method == "POST" || cs.Method == "PUT") {
			hdr = append(hdr, [2]string{"Content-Length", fmt.Sprint(len(body))})
		}
		var raw bytes.Buffer
		writeRaw(&raw, cs.Method+" "+cs.Path+cs.Query+" HTTP/1.1", hdr, body, cs.Chunks)
		conn, err := w.connect(cs.TLS, host)
		if err != nil {
			run.Inconclusive("connect: %v", err)
			return
		}
		if cs.SlowUp {
			go writeTrickled(conn, raw.Bytes(), 20*time.Second, w.sleep)
		} else {
			go conn.Write(raw.Bytes())
		}
		resp, rerr := readRawResponse(bufio.NewReader(conn), cs.Method)
		conn.Close()
		fail := func(sig, format string, a ...any) {
			echo.mu.Lock()
			got := echo.got[cs.ID]
			echo.mu.Unlock()
			tr := []string{"client sent: " + cs.Method + " " + cs.Path + cs.Query}
			if got != nil {
				tr = append(tr, "target received: "+got.Line)
				for _, h := range got.Hdr {
					tr = append(tr, "  "+h[0]+": "+trunc(h[1], 100))
				}
			}
			if resp != nil {
				tr = append(tr, "client received: "+resp.Line)
				for _, h := range resp.Hdr {
					tr = append(tr, "  "+h[0]+": "+trunc(h[1], 100))
				}
			}
			cc := cs
			for i := range cc.Hdr {
				cc.Hdr[i][1] = trunc(cc.Hdr[i][1], 100)
			}
			run.Violate(sig, fmt.Sprintf(format, a...), cc, tr)
		}
		if cs.CutBody {
			if rerr == nil && resp != nil && resp.BodyErr == "" {
				fail("truncation-presented-as-complete", "case %d: the target died in the middle of its chunked body (%d bytes); the client received a complete-looking response: %s, %d body bytes", cs.ID, cs.RBody, resp.Line, len(resp.Body))
				return
			}
			run.Count("cut_bodies_visibly_cut", 1)
			continue
		}
		if rerr != nil || resp == nil {
			fail("no-response", "case %d: no response: %v", cs.ID, rerr)
			return
		}
		echo.mu.Lock()
		got, sent := echo.got[cs.ID], echo.sent[cs.ID]
		attempts := echo.attempts[cs.ID]
		dropped := echo.dropped[cs.ID]
		echo.mu.Unlock()
		if dropped {
			// the connection died under this request: either the client is told (502) or the proxy
			// delivered the request again - then every delivery must carry the client's exact body
			for k, a := range attempts {
				if !bytes.Equal(a.Body, body) {
					fail("body-changed:redelivery", "case %d: delivery %d of the request (target connection dropped after the first) carried %d body bytes, the client sent %d", cs.ID, k+1, len(a.Body), len(body))
					return
				}
			}
			if got == nil {
				if resp.Status() != 502 {
					fail("dropped-connection-status", "case %d: target dropped the connection without answering; client got %s", cs.ID, resp.Line)
					return
				}
				run.Count("dropped_connection_502", 1)
				continue
			}
			run.Count("dropped_connection_redelivered", 1)
		}
		if got == nil {
			fail("not-forwarded", "case %d (%s %s): the target never saw the request; client got %s", cs.ID, cs.Method, cs.Path, resp.Line)
			return
		}
		// ---------- request side ----------
		f := strings.SplitN(got.Line, " ", 3)
		if len(f) != 3 {
			fail("request-line", "malformed request line at target: %q", got.Line)
			return
		}
		if f[0] != cs.Method {
			fail("method-changed", "method %q arrived as %q", cs.Method, f[0])
			return
		}
		gotPath, gotQuery, _ := strings.Cut(f[1], "?")
		wantPath := cs.Path
		if cs.Svc == "app" || cs.Svc == "fwdapp" {
			wantPath = strings.TrimPrefix(cs.Path, cs.Pfx)
			if wantPath == "" {
				wantPath = "/"
			}
		}
		if gotPath != wantPath {
			sig := "path-changed"
			if cs.Svc == "app" || cs.Svc == "fwdapp" {
				sig = "path-changed:strip"
				if strings.Contains(cs.Path, "%") {
					sig = "path-changed:strip:escapes"
				}
			}
			fail(sig, "client path %q (service %s) arrived as %q, expected %q", cs.Path, cs.Svc, gotPath, wantPath)
			return
		}
		if gotQuery != strings.TrimPrefix(cs.Query, "?") {
			fail("query-changed", "raw query %q arrived as %q", strings.TrimPrefix(cs.Query, "?"), gotQuery)
			return
		}
		if h := got.Get("Host"); len(h) != 1 || h[0] != host {
			fail("host-changed", "Host %q arrived as %v", host, h)
			return
		}
		if !bytes.Equal(got.Body, body) {
			fail("body-changed", "request body of %d bytes arrived as %d bytes (err %q)", len(body), len(got.Body), got.BodyErr)
			return
		}
		clientHdr := map[string][]string{}
		for _, h := range cs.Hdr {
			k := strings.ToLower(h[0])
			clientHdr[k] = append(clientHdr[k], h[1])
		}
		managed := map[string]bool{"host": true, "x-case": true, "content-length": true, "x-forwarded-for": true, "x-forwarded-proto": true, "x-forwarded-host": true, "x-request-id": true, "x-request-start": true}
		for k, vals := range clientHdr {
			if hopByHop[k] || managed[k] {
				continue
			}
			if g := got.Get(k); strings.Join(g, "\x00") != strings.Join(vals, "\x00") {
				fail("header-changed:"+k, "header %s: client sent %d values %q, target received %d values %q", k, len(vals), trunc(strings.Join(vals, " | "), 120), len(g), trunc(strings.Join(g, " | "), 120))
				return
			}
		}
		for _, h := range got.Hdr {
			k := strings.ToLower(h[0])
			if _, sentByClient := clientHdr[k]; sentByClient || managed[k] || hopByHop[k] {
				continue
			}
			if k == "user-agent" && h[1] == "" {
				continue
			}
			fail("header-added:"+k, "target received header %s: %q which the client did not send", h[0], trunc(h[1], 80))
			return
		}
		// forwarding headers
		fwdOn := cs.Svc == "fwd" || cs.Svc == "fwdapp"
		scheme := "http"
		if cs.TLS {
			scheme = "https"
		}
		xff := strings.Join(got.Get("X-Forwarded-For"), ", ")
		wantXFF, wantXFP, wantXFH := "10.9.8.7", scheme, host
		if fwdOn {
			if c := clientHdr["x-forwarded-for"]; len(c) > 0 {
				wantXFF = strings.Join(c, ", ") + ", 10.9.8.7"
			}
			if c := clientHdr["x-forwarded-proto"]; len(c) > 0 && c[0] != "" {
				wantXFP = c[0]
			}
			if c := clientHdr["x-forwarded-host"]; len(c) > 0 && c[0] != "" {
				wantXFH = c[0]
			}
		}
		if xff != wantXFF || strings.Join(got.Get("X-Forwarded-Proto"), ",") != wantXFP || strings.Join(got.Get("X-Forwarded-Host"), ",") != wantXFH {
			fail(fmt.Sprintf("forwarded-headers:fwd=%v", fwdOn), "forwarding=%v: target received X-Forwarded-For=%q -Proto=%q -Host=%q; expected %q %q %q (client sent %v / %v / %v)", fwdOn, xff,
				strings.Join(got.Get("X-Forwarded-Proto"), ","), strings.Join(got.Get("X-Forwarded-Host"), ","), wantXFF, wantXFP, wantXFH, clientHdr["x-forwarded-for"], clientHdr["x-forwarded-proto"], clientHdr["x-forwarded-host"])
			return
		}
		rid := got.Get("X-Request-Id")
		if c := clientHdr["x-request-id"]; len(c) > 0 {
			if len(rid) != 1 || rid[0] != c[0] {
				fail("request-id-changed", "client X-Request-Id %q arrived as %v", c[0], rid)
				return
			}
		} else {
			if len(rid) != 1 || rid[0] == "" {
				fail("request-id-missing", "no X-Request-Id at the target: %v", rid)
				return
			}
			if prev, dup := seenIDs[rid[0]]; dup {
				fail("request-id-not-unique", "generated X-Request-Id %q used for cases %d and %d", rid[0], prev, cs.ID)
				return
			}
			seenIDs[rid[0]] = cs.ID
		}
		rs := got.Get("X-Request-Start")
		if c := clientHdr["x-request-start"]; len(c) > 0 {
			if len(rs) != 1 || rs[0] != c[0] {
				fail("request-start-changed", "client X-Request-Start %q arrived as %v", c[0], rs)
				return
			}
		} else if len(rs) != 1 || rs[0] == "" {
			fail("request-start-missing", "no X-Request-Start at the target")
			return
		}
		// ---------- response side ----------
		if resp.Status() != cs.RStatus {
			fail("status-changed", "target status %d arrived as %q", cs.RStatus, resp.Line)
			return
		}
		if cs.Method != "HEAD" && !bytes.Equal(resp.Body, sent.Body) {
			sig := "response-body-changed"
			if len(sent.Get("Content-Encoding")) > 0 {
				sig += ":content-encoding"
			}
			fail(sig, "response body: target sent %d bytes, client received %d bytes (err %q)", len(sent.Body), len(resp.Body), resp.BodyErr)
			return
		}
		if cs.Method == "HEAD" && cs.RStatus != 204 && cs.RStatus != 304 {
			// the answer to HEAD declares the length of the entity and carries no body: the declared
			// length is one of the target's headers
			if got, want := resp.First("Content-Length"), fmt.Sprint(len(sent.Body)); got != want {
				fail("response-header-changed:content-length:head", "HEAD: the target declared Content-Length %s, the client received %q", want, got)
				return
			}
		}
		sentHdr := map[string][]string{}
		for _, h := range sent.Hdr {
			k := strings.ToLower(h[0])
			sentHdr[k] = append(sentHdr[k], h[1])
		}
		for k, vals := range sentHdr {
			if hopByHop[k] {
				continue
			}
			if g := resp.Get(k); strings.Join(g, "\x00") != strings.Join(vals, "\x00") {
				fail("response-header-changed:"+k, "response header %s: target sent %q, client received %q", k, trunc(strings.Join(vals, " | "), 120), trunc(strings.Join(g, " | "), 120))
				return
			}
		}
		run.Count("cases_checked", 1)
		esc := strings.Contains(cs.Path, "%")
		run.Class(fmt.Sprintf("%s|%s|esc=%v|q=%v|body=%v|chunked=%v|st=%d|rframe=%s", cs.Svc, cs.Method, esc, cs.Query != "", cs.Body > 0, cs.Chunks > 0, cs.RStatus/100, cs.RFrame))
	}
	if len(sc.Cases) > 0 {
		c := sc.Cases[0]
		for i := range c.Hdr {
			c.Hdr[i][1] = trunc(c.Hdr[i][1], 60)
		}
		run.Sample(c)
	}
}

func depBuf(w *World, run *Run) bool {
	to := DefTO
	to.BufferRequests, to.BufferResponses, to.MaxMemoryBufferSize = true, true, 4096
	if c := w.Deploy("buf", []string{"echo:80"}, server.ServiceOptions{Hosts: []string{"buf.example"}}, to, 5*time.Second, time.Second); c.Err != "" {
		run.Inconclusive("setup deploy buf: %s", c.Err)
		return false
	}
	return true
}
