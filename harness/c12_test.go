package verifharness

// C12 The state file is always one complete, current snapshot.
// Part A (SIM): the bytes on disk at every snapshot/deploy hook point of every command of a
//   history are restored into a fresh router and must show the pre- or the post-command
//   configuration; after every command (and after overlapping commands whose snapshot steps are
//   interleaved) the file must describe the live configuration.
// Part B (real binary, hooks): the binary kills itself (SIGKILL) at a chosen hook point.
// Part C (real binary, no hooks): strace kills it at the syscalls that touch the state file.

import (
	"encoding/json"
	"fmt"
	"math/rand/v2"
	"os"
	"os/exec"
	"path/filepath"
	"sort"
	"strings"
	"sync"
	"testing"
	"testing/synctest"
	"time"
)

var c12Points = []string{"snapshot.listed", "snapshot.created", "snapshot.written", "snapshot.done", "deploy.healthy", "deploy.lb.updated", "deploy.installed", "deploy.drained", "service.gate.set"}

type c12Scenario struct {
	Idx     int    `json:"idx"`
	Part    string `json:"part"` // sim | sim-overlap | kill | strace
	History []Cmd  `json:"history,omitempty"`
	Point   string `json:"point,omitempty"`
	Nth     int    `json:"nth,omitempty"`
	CmdKind string `json:"cmd,omitempty"`
	Sys     string `json:"syscall,omitempty"`
	// TmpBlocked (sim): while the last command runs, the temporary file of the snapshot cannot be
	// created (a non-empty directory sits at its path). Saving may then fail - what is on disk must
	// still be a complete snapshot at every step
	TmpBlocked bool `json:"tmp_path_unusable,omitempty"`
}

var c12RealCmds = []string{"deploy-new", "redeploy", "pause", "stop", "resume", "remove", "rollout-deploy", "rollout-set"}
var c12Strace = []string{"write:state", "write:tmp", "rename", "fsync"}

func c12Gen(rng *rand.Rand, idx int, nsim, nkill, nstrace int) c12Scenario {
	switch {
	case idx < nsim:
		sc := c12Scenario{Idx: idx, Part: "sim"}
		if idx%4 == 3 {
			sc.Part = "sim-overlap"
		}
		sc.TmpBlocked = idx%4 == 1
		g := NewCmdGen(rng)
		n := 2 + rng.IntN(9)
		for i := 0; i < n; i++ {
			c := g.Next()
			if i == 0 {
				c = g.Deploy("s0")
				g.exists["s0"] = true
			}
			sc.History = append(sc.History, c)
		}
		if idx%4 == 2 {
			// ends with rollout targets that no split uses (never set, or set and stopped again)
			sc.History = append(sc.History, Cmd{Kind: "rollout-deploy", Svc: "s0", Targets: g.targets("s0", "r"), DeployTO: 5 * time.Second, DrainTO: time.Second})
			if idx%8 == 6 {
				sc.History = append(sc.History, Cmd{Kind: "rollout-set", Svc: "s0", Pct: 50}, Cmd{Kind: "rollout-stop", Svc: "s0"})
			}
		}
		return sc
	case idx < nsim+nkill:
		k := idx - nsim
		return c12Scenario{Idx: idx, Part: "kill", Point: c12Points[k%len(c12Points)], Nth: 1 + (k/len(c12Points))%2, CmdKind: c12RealCmds[(k/2+k/len(c12Points))%len(c12RealCmds)]}
	default:
		k := idx - nsim - nkill
		return c12Scenario{Idx: idx, Part: "strace", Sys: c12Strace[k%len(c12Strace)], CmdKind: c12RealCmds[(k/len(c12Strace))%len(c12RealCmds)]}
	}
}

func TestC12(t *testing.T) {
	run := NewRun(t, "C12")
	defer run.Finish()
	nsim, nkill, nstrace := run.N(64, 3000), run.N(9, 288), run.N(4, 64)
	for i := 0; i < nsim+nkill+nstrace; i++ {
		sc := c12Gen(run.Rand(i), i, nsim, nkill, nstrace)
		if !run.Mine(i, sc) {
			continue
		}
		switch sc.Part {
		case "sim", "sim-overlap":
			synctest.Test(t, func(t *testing.T) { c12Sim(t, run, sc) })
		default:
			c12Real(t, run, sc)
		}
	}
}

// normStateJSON: the state file with its services sorted by name (the order of a snapshot follows map iteration).
func normStateJSON(b []byte) string {
	var v []map[string]any
	if json.Unmarshal(b, &v) != nil {
		return fmt.Sprintf("UNPARSABLE(%d bytes)", len(b))
	}
	sort.Slice(v, func(i, j int) bool { return fmt.Sprint(v[i]["name"]) < fmt.Sprint(v[j]["name"]) })
	nb, _ := json.Marshal(v)
	return string(nb)
}

// configView: the health-independent observable configuration of a proxy (what a restart would
// serve): list output and routing/behaviour panel, without the state file itself.
func configView(w *World, p *Proxy, tag string) map[string]string {
	v := Observe(w, p, tag, false)
	delete(v, "statefile")
	return v
}

// restoreView restores the given bytes into a fresh proxy inside the world and returns its view.
func restoreView(w *World, data []byte, tag string) (map[string]string, string) {
	dir := w.T.TempDir()
	os.MkdirAll(dir, 0o755)
	if data != nil {
		os.WriteFile(filepath.Join(dir, "kamal-proxy.state"), data, 0o644)
	}
	p := w.NewProxy(dir)
	var rerr error
	func() {
		defer func() {
			if r := recover(); r != nil {
				rerr = fmt.Errorf("panic: %v", r)
			}
		}()
		rerr = p.Router.RestoreLastSavedState()
	}()
	if rerr != nil {
		return nil, rerr.Error()
	}
	v := configView(w, p, tag)
	// dispose the temporary proxy's services (stops its probes)
	for name := range p.Router.ListActiveServices() {
		func() {
			defer func() { recover() }()
			p.Router.RemoveService(name)
		}()
	}
	return v, ""
}

func sameView(a, b map[string]string) bool { return len(DiffObs(a, b)) == 0 }

// c12Capture: what was on disk under the state file's name when a hook point was reached
type c12Capture struct {
	point string
	data  []byte
	exist bool
}

func c12Sim(t *testing.T, run *Run, sc c12Scenario) {
	w := NewWorld(t, WorldOpt{TLSListener: true})
	defer w.Close()
	run.Eval()
	fail := func(sig, format string, a ...any) {
		run.Violate(sig, fmt.Sprintf(format, a...), sc, func() []string { return w.Trace(100) })
	}
	prim := w.Primary()
	var mu sync.Mutex
	var caps []c12Capture
	capturing := false
	w.mu.Lock()
	w.OnHook = func(h HookRec) {
		mu.Lock()
		on := capturing
		mu.Unlock()
		if !on || !(strings.HasPrefix(h.Point, "snapshot.") || strings.HasPrefix(h.Point, "deploy.") || h.Point == "service.gate.set") {
			return
		}
		b, err := os.ReadFile(w.StatePath)
		mu.Lock()
		caps = append(caps, c12Capture{h.Point, b, err == nil})
		mu.Unlock()
	}
	w.mu.Unlock()
	if sc.Part == "sim-overlap" {
		c12Overlap(w, run, sc, fail, func() {
			mu.Lock()
			caps, capturing = nil, true
			mu.Unlock()
		}, func() []c12Capture {
			mu.Lock()
			defer mu.Unlock()
			capturing = false
			return caps
		})
		return
	}
	points := 0
	fileStale := false
	for i, c := range sc.History {
		pre := configView(w, prim, fmt.Sprintf("pre%d", i))
		blocked := sc.TmpBlocked && i == len(sc.History)-1 && i > 0
		if blocked {
			os.MkdirAll(filepath.Join(w.StatePath+".tmp", "in-the-way"), 0o755)
		}
		mu.Lock()
		caps, capturing = nil, true
		mu.Unlock()
		rec := c.Exec(w, w.Router)
		mu.Lock()
		capturing = false
		mine := caps
		mu.Unlock()
		if blocked {
			os.RemoveAll(w.StatePath + ".tmp")
		}
		repeated := false
		if blocked && rec.Err == "" && (c.Kind == "stop" || c.Kind == "pause" || c.Kind == "resume" || c.Kind == "rollout-set" || c.Kind == "rollout-stop") {
			// the obstacle is gone and the operator repeats the command (it changes nothing in the
			// proxy): when it returns, the file is current again
			if r2 := c.Exec(w, w.Router); r2.Err == "" && r2.Panic == "" {
				repeated = true
				blocked = false
				run.Count("command_repeated_after_a_failed_save", 1)
			}
		}
		if blocked && !repeated && rec.Err == "" && rec.Panic == "" {
			// any other command: the obstacle is gone and the next command that saves - one that changes
			// nothing (it fails for an unknown service and still saves) - has returned: the file is current
			if r2 := w.Cmd("rollout-stop", "no-such-service", func() error { return w.Router.StopRollout("no-such-service") }); r2.Panic == "" {
				blocked = false
				run.Count("neutral_command_after_a_failed_save", 1)
			}
		}
		if i == 0 && sc.Idx%2 == 0 && rec.Err == "" && len(c.Targets) >= 2 {
			// from now on one target of the first service fails its health checks (it keeps serving
			// requests): which targets a service has is configuration, how they are doing is not
			if ft := w.Target(c.Targets[len(c.Targets)-1]); ft != nil {
				ft.mu.Lock()
				ft.Probe = failProbe
				ft.mu.Unlock()
				time.Sleep(7 * time.Second)
				run.Count("histories_with_a_target_failing_its_probes", 1)
			}
		}
		fileStale = blocked // the save of this command could not succeed: the file is the previous snapshot
		if rec.Panic != "" {
			fail("panic:"+c.Kind, "command panicked: %s", rec.Panic)
			return
		}
		post := configView(w, prim, fmt.Sprintf("post%d", i))
		changed := !sameView(pre, post)
		// (b) currency: the file now describes the configuration in force
		data, err := os.ReadFile(w.StatePath)
		if err != nil {
			if len(post) > 0 && i > 0 {
				fail("state-file-missing", "after command %d (%s) there is no state file", i, c.Kind)
				return
			}
		} else {
			v, rerr := restoreView(w, data, fmt.Sprintf("cur%d", i))
			if rerr != "" {
				fail("state-file-unrestorable", "after command %d (%s) the state file cannot be restored: %s", i, c.Kind, rerr)
				return
			}
			if !blocked {
				// sharper than any behavioural panel: make the proxy write its state again (a command
				// that fails for an unknown service still saves) - the bytes must say the same
				w.Cmd("rollout-stop", "no-such-service", func() error { return w.Router.StopRollout("no-such-service") })
				if again, err2 := os.ReadFile(w.StatePath); err2 == nil {
					if a, b := normStateJSON(data), normStateJSON(again); a != b {
						fail("state-file-not-current:snapshot-differs:"+c.Kind, "after command %d (%s %s) returned the state file said %s; written again without any change to the proxy it says %s", i, c.Kind, c.Svc, trunc(a, 300), trunc(b, 300))
						return
					}
				}
			}
			if d := DiffObs(post, v); len(d) > 0 && blocked {
				// the snapshot could not be written: the file is the previous, complete one
				run.Count("tmp_blocked_snapshot_not_saved", 1)
				if pd := DiffObs(pre, v); len(pd) > 0 {
					fail("state-file-neither-pre-nor-post:tmp-blocked", "command %d (%s) with the temporary snapshot path unusable: the state file restores to neither the configuration before nor after it (%s)", i, c.Kind, pd[0])
					return
				}
			} else if len(d) > 0 {
				fail("state-file-not-current:"+c.Kind, "after command %d (%s %s) returned, a proxy restored from the state file differs from the live one in %d observables, first: %s", i, c.Kind, c.Svc, len(d), d[0])
				return
			}
		}
		// (a) crash points: what SIGKILL would have left at each step boundary
		for k, cp := range mine {
			points++
			if !cp.exist {
				if i == 0 {
					continue // nothing saved yet: a restart comes up empty, which is the pre state
				}
				fail("crash-point:file-missing:"+cp.point, "command %d (%s), at %s: the state file does not exist", i, c.Kind, cp.point)
				return
			}
			v, rerr := restoreView(w, cp.data, fmt.Sprintf("cp%d-%d", i, k))
			if rerr != "" {
				fail("crash-point:unrestorable:"+cp.point, "command %d (%s), at %s: the %d bytes on disk cannot be restored (%s): a crash here leaves a truncated or empty state file", i, c.Kind, cp.point, len(cp.data), rerr)
				return
			}
			if !sameView(v, pre) && !sameView(v, post) {
				d1, d2 := DiffObs(pre, v), DiffObs(post, v)
				fail("crash-point:neither-pre-nor-post:"+cp.point, "command %d (%s), at %s: the file on disk restores to a configuration that is neither the one before (%d differences, e.g. %s) nor the one after the command (%d differences, e.g. %s)", i, c.Kind, cp.point, len(d1), d1[0], len(d2), d2[0])
				return
			}
			if changed {
				run.Class(fmt.Sprintf("sim|%s|%s|file=%s", c.Kind, cp.point, map[bool]string{true: "pre", false: "post"}[sameView(v, pre)]))
			}
		}
	}
	// (c) what no request can see is configuration too: rollout targets that no split uses. When the
	// history is over, `rollout set` is issued for every service to the proxy restored from the file
	// and then to the live one: both accept it or both refuse it.
	if data, err := os.ReadFile(w.StatePath); err == nil && !fileStale {
		var names []string
		for name := range w.Router.ListActiveServices() {
			names = append(names, name)
		}
		sort.Strings(names)
		dir := w.T.TempDir()
		os.WriteFile(filepath.Join(dir, "kamal-proxy.state"), data, 0o644)
		p := w.NewProxy(dir)
		if rerr := p.Router.RestoreLastSavedState(); rerr == nil {
			for _, name := range names {
				restored := p.Router.SetRolloutSplit(name, 100, nil)
				live := w.RolloutSet(name, 100, nil)
				run.Count("rollout_set_compared_live_and_restored", 1)
				if (restored == nil) != (live.Err == "") {
					fail("state-file-not-current:rollout-set-differs", "after the history, `rollout set %s 100`: the live proxy said %q, the proxy restored from the state file %q", name, live.Err, fmt.Sprint(restored))
					break
				}
				if live.Err == "" {
					run.Class("sim|rollout-targets-present-at-end")
				}
			}
			for name := range p.Router.ListActiveServices() {
				func() {
					defer func() { recover() }()
					p.Router.RemoveService(name)
				}()
			}
		}
	}
	run.Count("crash_points_checked", points)
	run.Sample(map[string]any{"part": "sim", "history": kinds(sc.History), "crash_points": points})
}

// c12Overlap: pairs of commands run concurrently with their snapshot steps interleaved by hook
// delays (A lists, B lists, B writes, A writes, ...); once both returned the file must be current.
func c12Overlap(w *World, run *Run, sc c12Scenario, fail func(sig, format string, a ...any), capStart func(), capStop func() []c12Capture) {
	prim := w.Primary()
	rng := run.Rand(sc.Idx + 1<<29)
	// a base configuration with two services, so that the pair can touch different services
	g := NewCmdGen(rng)
	a, b := g.Deploy("s0"), g.Deploy("s1")
	a.Hosts, b.Hosts, a.TLS, b.TLS = []string{"h0.example"}, []string{"h1.example"}, "", ""
	for _, c := range []Cmd{a, b} {
		if rec := c.Exec(w, w.Router); rec.Err != "" {
			run.Inconclusive("overlap setup: %s", rec.Err)
			return
		}
	}
	g.exists["s0"], g.exists["s1"] = true, true
	exists := map[string]bool{"s0": true, "s1": true}
	pairs, points := 0, 0
	for round := 0; round < 6; round++ {
		mk := func(svc string) Cmd {
			k := rng.IntN(6)
			if !exists[svc] {
				k = 4
			}
			switch k {
			case 5:
				return Cmd{Kind: "remove", Svc: svc}
			case 0:
				return Cmd{Kind: "pause", Svc: svc, DrainTO: time.Second, MaxPause: 300 * time.Millisecond}
			case 1:
				return Cmd{Kind: "stop", Svc: svc, DrainTO: time.Second, Msg: fmt.Sprintf("m%d", round)}
			case 2:
				return Cmd{Kind: "resume", Svc: svc}
			case 3:
				return Cmd{Kind: "rollout-deploy", Svc: svc, Targets: g.targets(svc, "r"), DeployTO: 5 * time.Second, DrainTO: time.Second}
			}
			c := g.Deploy(svc)
			c.Hosts, c.TLS = []string{"h" + svc[1:] + ".example"}, ""
			return c
		}
		c1, c2 := mk("s0"), mk("s1")
		directed := round == 0
		if directed {
			// directed: a quick command on s0 has listed the services for its snapshot when s1 is removed
			c1 = []Cmd{{Kind: "stop", Svc: "s0", DrainTO: time.Second, Msg: "m"}, {Kind: "pause", Svc: "s0", DrainTO: time.Second, MaxPause: time.Minute}, {Kind: "rollout-stop", Svc: "s0"}}[sc.Idx%3]
			c2 = Cmd{Kind: "remove", Svc: "s1"}
		}
		pre := configView(w, prim, fmt.Sprintf("pre%d", round))
		capStart()
		// per-occurrence real-time delays at the snapshot steps (they sit inside the snapshot
		// lock, where a virtual sleep must not be used): which command lists/writes first varies
		spins := []int{rng.IntN(4) * 400, rng.IntN(4) * 400, rng.IntN(4) * 400, rng.IntN(4) * 400, 0}
		w.mu.Lock()
		w.PointSpin = map[string]func(int) int{}
		for _, p := range []string{"snapshot.listed", "snapshot.created", "snapshot.written"} {
			w.PointSpin[p] = func(n int) int { return spins[n%len(spins)] }
		}
		reached := make(chan struct{})
		if directed {
			var once sync.Once
			w.PointSpin["snapshot.listed"] = func(n int) int {
				first := false
				once.Do(func() { first = true; close(reached) })
				if first {
					return 20000 // scheduler yields: time for the other command's in-memory step
				}
				return 0
			}
		}
		w.mu.Unlock()
		var wg sync.WaitGroup
		var r1, r2 *CmdRec
		wg.Add(2)
		go func() { defer wg.Done(); r1 = c1.Exec(w, w.Router) }()
		go func() {
			defer wg.Done()
			if directed {
				<-reached
			} else {
				time.Sleep(time.Duration(rng.IntN(3)) * (5*time.Millisecond + OffArrival))
			}
			r2 = c2.Exec(w, w.Router)
		}()
		wg.Wait()
		mine := capStop()
		w.ClearDelays()
		if r1.Panic != "" || r2.Panic != "" {
			fail("panic:overlap", "overlapping %s / %s panicked: %s %s", c1.Kind, c2.Kind, r1.Panic, r2.Panic)
			return
		}
		for _, c := range []struct {
			c Cmd
			r *CmdRec
		}{{c1, r1}, {c2, r2}} {
			if c.r.Err == "" && (c.c.Kind == "remove" || c.c.Kind == "deploy") {
				exists[c.c.Svc] = c.c.Kind == "deploy"
			}
		}
		live := configView(w, prim, fmt.Sprintf("live%d", round))
		data, err := os.ReadFile(w.StatePath)
		if err != nil {
			fail("state-file-missing", "no state file after overlapping commands")
			return
		}
		v, rerr := restoreView(w, data, fmt.Sprintf("ovl%d", round))
		if rerr != "" {
			fail("state-file-unrestorable", "after overlapping %s / %s: %s", c1.Kind, c2.Kind, rerr)
			return
		}
		if d := DiffObs(live, v); len(d) > 0 {
			fail("state-file-stale-after-overlap", "after overlapping %s(%s) and %s(%s) both returned, a proxy restored from the state file differs from the live one in %d observables, first: %s", c1.Kind, c1.Svc, c2.Kind, c2.Svc, len(d), d[0])
			return
		}
		// (a) crash points while the two were running: the two commands touch different services (s0 on
		// h0.example, s1 on h1.example), so what a kill would have left restores, service by service,
		// to that service's configuration before or after the command that touched it
		isS1 := func(key string) bool { return strings.Contains(key, "h1.example") || strings.Contains(key, "s1") }
		mix := func(base, other map[string]string) map[string]string {
			out := map[string]string{}
			for k, v := range base {
				if !isS1(k) {
					out[k] = v
				}
			}
			for k, v := range other {
				if isS1(k) {
					out[k] = v
				}
			}
			return out
		}
		legal := []map[string]string{pre, live, mix(pre, live), mix(live, pre)}
		seen := map[string]bool{}
		for k, cp := range mine {
			if !cp.exist || seen[string(cp.data)] {
				continue
			}
			seen[string(cp.data)] = true
			points++
			cv, rerr := restoreView(w, cp.data, fmt.Sprintf("ocp%d-%d", round, k))
			if rerr != "" {
				fail("crash-point:unrestorable:overlap:"+cp.point, "while %s(%s) and %s(%s) overlapped, at %s: the %d bytes on disk cannot be restored (%s)", c1.Kind, c1.Svc, c2.Kind, c2.Svc, cp.point, len(cp.data), rerr)
				return
			}
			ok := false
			for _, l := range legal {
				ok = ok || sameView(cv, l)
			}
			if !ok {
				d := DiffObs(live, cv)
				fail("crash-point:neither-pre-nor-post:overlap:"+cp.point, "while %s(%s) and %s(%s) overlapped, at %s: the file on disk restores to a configuration in which some service is neither as before nor as after the command that touched it (against the final configuration: %d differences, e.g. %s)", c1.Kind, c1.Svc, c2.Kind, c2.Svc, cp.point, len(d), d[0])
				return
			}
		}
		pairs++
		run.Class(fmt.Sprintf("overlap|%s+%s", c1.Kind, c2.Kind))
	}
	run.Count("overlapping_pairs_checked", pairs)
	run.Count("crash_points_checked_during_overlap", points)
}

// ---------- real binary ----------

func c12Real(t *testing.T, run *Run, sc c12Scenario) {
	run.Eval()
	bin := os.Getenv("VERIF_BIN_KAMAL_PROXY")
	if sc.Part == "kill" {
		bin = os.Getenv("VERIF_BIN_KAMAL_PROXY_VERIF")
	}
	if bin == "" {
		run.Inconclusive("real binary not built (VERIF_BIN_* unset)")
		return
	}
	fail := func(sig, format string, a ...any) { run.Violate(sig, fmt.Sprintf(format, a...), sc, nil) }
	t1, a1 := RealTarget("t1")
	defer t1.Close()
	t2, a2 := RealTarget("t2")
	defer t2.Close()
	t3, a3 := RealTarget("t3")
	defer t3.Close()
	history := [][]string{{"deploy", "s1", "--target", a1, "--host", "one.example"}, {"deploy", "s2", "--target", a2, "--host", "two.example", "--path-prefix", "/api"}}
	var cmd []string
	switch sc.CmdKind {
	case "deploy-new":
		cmd = []string{"deploy", "s3", "--target", a3, "--host", "three.example"}
	case "redeploy":
		cmd = []string{"deploy", "s1", "--target", a3, "--host", "one.example", "--host", "uno.example"}
	case "pause":
		cmd = []string{"pause", "s1", "--max-pause", "7s"}
	case "stop":
		cmd = []string{"stop", "s2", "--message", "closed for today"}
	case "resume":
		history = append(history, []string{"stop", "s1"})
		cmd = []string{"resume", "s1"}
	case "remove":
		cmd = []string{"remove", "s2"}
	case "rollout-deploy":
		cmd = []string{"rollout", "deploy", "s1", "--target", a3}
	case "rollout-set":
		history = append(history, []string{"rollout", "deploy", "s1", "--target", a3})
		cmd = []string{"rollout", "set", "s1", "--percent", "30"}
	}
	// snapshot of a universe as a restart would see it: list rows + parsed state
	view := func(u *Universe) (string, string) {
		rows, out, code := u.ListRows()
		if code != 0 {
			return "", "list failed: " + out
		}
		return rowsKey(rows), ""
	}
	normState := func(path string) string {
		b, err := os.ReadFile(path)
		if err != nil {
			return "absent"
		}
		var v []map[string]any
		if json.Unmarshal(b, &v) != nil {
			return fmt.Sprintf("UNPARSABLE(%d bytes)", len(b))
		}
		sort.Slice(v, func(i, j int) bool { return fmt.Sprint(v[i]["name"]) < fmt.Sprint(v[j]["name"]) })
		nb, _ := json.Marshal(v)
		return string(nb)
	}
	// reference universe: pre and post
	ref := NewUniverse(t, os.Getenv("VERIF_BIN_KAMAL_PROXY"))
	defer ref.Cleanup()
	if err := ref.Start(nil); err != nil {
		run.Inconclusive("reference proxy: %v", err)
		return
	}
	for _, h := range history {
		if out, code := ref.CLI(h...); code != 0 {
			run.Inconclusive("reference history %v failed: %s", h, out)
			return
		}
	}
	pre, e1 := view(ref)
	preState := normState(ref.StatePath())
	if out, code := ref.CLI(cmd...); code != 0 {
		run.Inconclusive("reference command %v failed: %s", cmd, out)
		return
	}
	post, e2 := view(ref)
	postState := normState(ref.StatePath())
	ref.Stop()
	if e1 != "" || e2 != "" {
		run.Inconclusive("reference list: %s %s", e1, e2)
		return
	}
	// crash universe
	u := NewUniverse(t, bin)
	defer u.Cleanup()
	if err := u.Start(nil); err != nil {
		run.Inconclusive("proxy: %v", err)
		return
	}
	for _, h := range history {
		if out, code := u.CLI(h...); code != 0 {
			run.Inconclusive("history %v failed: %s", h, out)
			return
		}
	}
	u.Stop()
	var wrapper []string
	var extra []string
	what := ""
	if sc.Part == "kill" {
		extra = []string{fmt.Sprintf("VERIF_CRASH=%s:%d", sc.Point, sc.Nth)}
		what = fmt.Sprintf("SIGKILL at hook %s (occurrence %d)", sc.Point, sc.Nth)
	} else {
		if _, err := exec.LookPath("strace"); err != nil {
			run.Inconclusive("strace not available")
			return
		}
		wrapper = []string{"strace", "-f", "-o", "/dev/null"}
		switch sc.Sys {
		case "write:state":
			wrapper = append(wrapper, "-P", u.StatePath(), "-e", "trace=write", "-e", "inject=write:signal=KILL:when=1")
		case "write:tmp":
			wrapper = append(wrapper, "-P", u.StatePath()+".tmp", "-e", "trace=write", "-e", "inject=write:signal=KILL:when=1")
		case "rename":
			wrapper = append(wrapper, "-e", "trace=rename,renameat,renameat2", "-e", "inject=rename,renameat,renameat2:signal=KILL:when=1")
		case "fsync":
			wrapper = append(wrapper, "-e", "trace=fsync,fdatasync", "-e", "inject=fsync,fdatasync:signal=KILL:when=1")
		}
		what = "SIGKILL injected by strace at the first " + sc.Sys
	}
	if err := u.Start(wrapper, extra...); err != nil {
		run.Inconclusive("proxy under crash injection did not start: %v", err)
		return
	}
	u.CLI(cmd...) // may fail: the proxy dies under it
	died := u.WaitExit(3 * time.Second)
	if !died {
		u.Stop()
	}
	rawState, _ := os.ReadFile(u.StatePath())
	gotState := normState(u.StatePath())
	if err := u.Start(nil); err != nil {
		fail("restart-failed", "%s during %v: the proxy does not start afterwards: %v", what, cmd, err)
		return
	}
	got, e3 := view(u)
	// life goes on after the crash: the next command that returns must be in the file (whatever the
	// crash left behind in the state directory must not get in its way)
	followOut, followCode := u.CLI("deploy", "s9", "--target", a1, "--host", "nine.example")
	followState := normState(u.StatePath())
	u.Stop()
	if e3 == "" && followCode == 0 && !strings.Contains(followState, `"name":"s9"`) {
		sig := "crash:next-command-not-saved"
		if sc.Part == "strace" {
			sig += ":strace:" + sc.Sys
		} else {
			sig += ":" + sc.Point
		}
		fail(sig, "%s during `%s`, restart, then `deploy s9` returned successfully: the state file does not contain s9 (%s)", what, strings.Join(cmd, " "), trunc(followState, 200))
		return
	}
	if followCode != 0 {
		run.Count("follow_up_command_failed", 1)
		_ = followOut
	}
	if e3 != "" {
		run.Inconclusive("list after restart: %s", e3)
		return
	}
	if got != pre && got != post {
		sig := "crash:neither-pre-nor-post"
		if got == "" {
			sig = "crash:empty-after-restart"
		}
		if sc.Part == "strace" {
			sig += ":strace:" + sc.Sys
		} else {
			sig += ":" + sc.Point
		}
		fail(sig, "%s during `%s`: after a restart `list` shows\n%s\nwhich is neither the configuration before\n%s\nnor after the command\n%s\n(state file after the crash: %d bytes, %s)", what, strings.Join(cmd, " "), got, pre, post, len(rawState), trunc(gotState, 80))
		return
	}
	if gotState != preState && gotState != postState {
		// same list but a different file: compare modulo target addresses is not needed (same targets)
		fail("crash:state-file-neither-pre-nor-post", "%s during `%s`: the state file is neither the snapshot before nor the one after the command: %s", what, strings.Join(cmd, " "), trunc(gotState, 200))
		return
	}
	which := "pre"
	if got == post && pre != post {
		which = "post"
	}
	key := sc.Point
	if sc.Part == "strace" {
		key = "strace:" + sc.Sys
	}
	run.Class(fmt.Sprintf("%s|%s|%s|died=%v|file=%s", sc.Part, sc.CmdKind, key, died, which))
	run.Count("real_crashes", 1)
	if died {
		run.Count("real_crashes_process_died", 1)
	}
	run.Sample(map[string]any{"part": sc.Part, "command": cmd, "injection": what, "process_died": died, "after_restart": which})
}
