package verifharness

// C17 Commands return within their timeouts and leave no probes behind.

import (
	"fmt"
	"math/rand/v2"
	"sort"
	"strings"
	"sync"
	"testing"
	"testing/synctest"
	"time"

	"github.com/basecamp/kamal-proxy/internal/server"
)

const (
	c17Interval = time.Second
	c17ProbeTO  = 400 * time.Millisecond
)

type c17Target struct {
	Name     string `json:"name"`
	FirstOK  int    `json:"first_ok"`  // index of the first successful probe, -1 never
	FailKind string `json:"fail_kind"` // refuse | 500 | hang
}

type c17Cmd struct {
	Kind     string        `json:"kind"`
	Svc      string        `json:"svc"`
	Targets  []c17Target   `json:"targets,omitempty"`
	DeployTO time.Duration `json:"deploy_timeout,omitempty"`
	DrainTO  time.Duration `json:"drain_timeout,omitempty"`
	Inflight []c03Inflight `json:"inflight,omitempty"` // Fin relative to the command's issue instant
	Conflict bool          `json:"conflict,omitempty"`
	Overlap  bool          `json:"overlap,omitempty"` // issued concurrently with the previous command (thorough tier)
}

type c17Scenario struct {
	Idx    int      `json:"idx"`
	FastIv bool     `json:"fast_interval"` // probe interval 300ms with probe timeout 1s: probes slower than the interval
	Cmds   []c17Cmd `json:"cmds"`
}

var c17Hosts = map[string]string{"s1": "one.example", "s2": "two.example"}

func c17Gen(rng *rand.Rand, idx int, overlap bool) c17Scenario {
	sc := c17Scenario{Idx: idx, FastIv: idx%4 == 3}
	if idx < 3 {
		// canonical: a drain with many requests that finish late (at 0.7 of the drain timeout) and one
		// that never does: the command returns at the drain timeout, not later
		mk := func(g int) []c17Target { return []c17Target{{Name: fmt.Sprintf("s1-g%d-t0:80", g), FailKind: "500"}} }
		var fl []c03Inflight
		for j := 0; j < 8; j++ {
			fl = append(fl, c03Inflight{Kind: "early", Fin: 700*time.Millisecond + OffTarget})
		}
		fl = append(fl, c03Inflight{Kind: "never"})
		second := []c17Cmd{{Kind: "pause", Svc: "s1", DrainTO: time.Second, Inflight: fl}, {Kind: "stop", Svc: "s1", DrainTO: time.Second, Inflight: fl},
			{Kind: "deploy", Svc: "s1", Targets: mk(2), DeployTO: 30 * time.Second, DrainTO: time.Second, Inflight: fl}}[idx]
		sc.Cmds = []c17Cmd{{Kind: "deploy", Svc: "s1", Targets: mk(1), DeployTO: 30 * time.Second, DrainTO: time.Second}, second}
		return sc
	}
	n := 1 + rng.IntN(10)
	exists := map[string]bool{}
	gen := 0
	tos := []time.Duration{0, Step, time.Second, time.Second, 30 * time.Second, 30 * time.Second}
	for i := 0; i < n; i++ {
		svc := pick(rng, []string{"s1", "s1", "s2"})
		c := c17Cmd{Svc: svc}
		kinds := []string{"deploy", "deploy", "deploy"}
		if exists[svc] {
			kinds = append(kinds, "rollout-deploy", "pause", "stop", "resume", "remove", "rollout-set", "rollout-stop", "list", "deploy")
		} else if rng.IntN(8) == 0 {
			kinds = []string{"pause", "stop", "resume", "remove", "rollout-deploy", "rollout-set"}
		}
		c.Kind = pick(rng, kinds)
		c.DrainTO = pick(rng, tos)
		if c.Kind == "deploy" || c.Kind == "rollout-deploy" {
			gen++
			c.DeployTO = pick(rng, []time.Duration{time.Second + 500*time.Millisecond, 3*time.Second + 500*time.Millisecond, 30 * time.Second, 30 * time.Second})
			if rng.IntN(12) == 0 {
				c.DeployTO = pick(rng, []time.Duration{0, Step})
			}
			nt := 1 + rng.IntN(3)
			for j := 0; j < nt; j++ {
				t := c17Target{Name: fmt.Sprintf("%s-g%d-t%d:80", svc, gen, j), FailKind: pick(rng, []string{"refuse", "500", "hang"})}
				switch rng.IntN(6) {
				case 0:
					t.FirstOK = -1
				case 1, 2:
					t.FirstOK = 1 + rng.IntN(4)
				}
				if sc.FastIv && t.FirstOK > 0 {
					t.FirstOK = 0 // with slow probes only "healthy at once" and "never" are modelled
				}
				c.Targets = append(c.Targets, t)
			}
			if c.Kind == "deploy" && svc == "s2" && exists["s1"] && rng.IntN(4) == 0 {
				c.Conflict = true
			}
		}
		if exists[svc] && (c.Kind == "deploy" || c.Kind == "pause" || c.Kind == "stop" || c.Kind == "rollout-deploy") {
			for j := rng.IntN(4); j > 0; j-- {
				f := c03Inflight{Kind: pick(rng, []string{"early", "early", "never", "upgrade"})}
				if f.Kind == "early" {
					f.Fin = time.Duration(300+rng.IntN(2500))*time.Millisecond + OffTarget
				}
				c.Inflight = append(c.Inflight, f)
			}
		}
		if overlap && i > 0 && rng.IntN(4) == 0 {
			c.Overlap = true
		}
		// model bookkeeping (optimistic: only used to steer generation)
		ok := true
		for _, t := range c.Targets {
			if t.FirstOK < 0 || time.Duration(t.FirstOK)*c17Interval >= c.DeployTO {
				ok = false
			}
		}
		if c.Kind == "deploy" && ok && !c.Conflict {
			exists[svc] = true
		}
		if c.Kind == "remove" {
			exists[svc] = false
		}
		sc.Cmds = append(sc.Cmds, c)
	}
	return sc
}

func (t c17Target) script(slow bool) func(n int, at time.Duration) ProbeAct {
	return func(n int, at time.Duration) ProbeAct {
		if t.FirstOK >= 0 && n >= t.FirstOK {
			if slow {
				// answers, but slower than the probe interval: a probe is in flight most of the time
				return ProbeAct{Status: 200, Delay: 700*time.Millisecond + OffTarget}
			}
			return ProbeAct{Status: 200}
		}
		switch t.FailKind {
		case "refuse":
			return ProbeAct{Refuse: true}
		case "hang":
			return ProbeAct{Status: 200, Delay: 1000 * time.Hour}
		}
		return ProbeAct{Status: 500}
	}
}

func TestC17(t *testing.T) {
	run := NewRun(t, "C17")
	defer run.Finish()
	n := run.N(400, 24000)
	for i := 0; i < n; i++ {
		// overlapping commands: every scenario may contain them in the thorough tier, one in five in quick
		sc := c17Gen(run.Rand(i), i, run.Thorough() || i%5 == 4)
		if !run.Mine(i, sc) {
			continue
		}
		synctest.Test(t, func(t *testing.T) { c17Run(t, run, sc) })
	}
	// two commands around requests that linger between gate and claim (the scenario of C03): neither
	// has anything to drain, both return at once
	for k := 0; k < run.N(16, 400); k++ {
		desc := map[string]any{"part": "two-commands-around-one-request", "k": k}
		if !run.Mine(n+2000+k, desc) {
			continue
		}
		synctest.Test(t, func(t *testing.T) { c03Double(t, run, k, run.Rand(n+2000+k)) })
	}
	// two overlapping deploys of one service (the scenario C02 and C03 share), then remove
	for k := 0; k < run.N(8, 200); k++ {
		desc := map[string]any{"part": "overlapping-deploys", "k": k}
		if !run.Mine(n+3000+k, desc) {
			continue
		}
		synctest.Test(t, func(t *testing.T) { overlapDeploys(t, run, k, run.Rand(n+3000+k)) })
	}
	// redeploys onto the very targets the service already has, then a command that lets go of them
	for k := 0; k < run.N(24, 600); k++ {
		desc := map[string]any{"part": "redeploy-onto-the-same-targets", "k": k}
		if !run.Mine(n+1000+k, desc) {
			continue
		}
		synctest.Test(t, func(t *testing.T) { c17Same(t, run, k, run.Rand(n+1000+k)) })
	}
	// real time: commands that dispose targets while probe results that change their state come in
	// (a command that then never returns is a deadlock, which virtual time cannot show: a goroutine
	// waiting for a mutex stops the fake clock)
	for g := 0; g < run.N(3, 40); g++ {
		desc := map[string]any{"part": "dispose-vs-probe-results", "g": g}
		if !run.Mine(n+g, desc) {
			continue
		}
		liveDispose(t, run, g, desc)
	}
}

// c17Same: a (rollout) deploy that names exactly the targets the slot already holds replaces one
// set of probers by another for the same addresses. While the service lives each target sees one
// probe per interval, not two; once remove, or a deploy onto other targets, has returned it sees
// none.
func c17Same(t *testing.T, run *Run, idx int, rng *rand.Rand) {
	w := NewWorld(t, WorldOpt{})
	defer w.Close()
	run.Eval()
	to := DefTO
	to.HealthCheckConfig.Interval = c17Interval
	to.HealthCheckConfig.Timeout = c17ProbeTO
	const svc = "svc"
	rollout := rng.IntN(3) == 0
	nt := 1 + rng.IntN(2)
	var names []string
	for i := 0; i < nt; i++ {
		names = append(names, fmt.Sprintf("sm%d-t%d:80", idx%5, i))
		w.AddTarget(names[i], nil)
	}
	w.AddTarget("base:80", nil)
	w.AddTarget("other:80", nil)
	fail := func(sig, format string, a ...any) {
		run.Violate(sig, fmt.Sprintf(format, a...), map[string]any{"idx": idx, "rollout": rollout, "targets": nt}, func() []string { return w.Trace(200) })
	}
	dep := func(ts []string) *CmdRec {
		if rollout {
			return w.RolloutDeploy(svc, ts, 5*time.Second, time.Second)
		}
		return w.Deploy(svc, ts, DefSO, to, 5*time.Second, time.Second)
	}
	if rollout {
		if c := w.Deploy(svc, []string{"base:80"}, DefSO, to, 5*time.Second, time.Second); c.Err != "" {
			run.Inconclusive("setup: %s", c.Err)
			return
		}
	}
	if c := dep(names); c.Err != "" {
		run.Inconclusive("setup: %s", c.Err)
		return
	}
	time.Sleep(2*c17Interval + 300*time.Millisecond)
	var last *CmdRec
	for r := 0; r < 1+rng.IntN(2); r++ {
		last = dep(names)
		if last.Err != "" || last.Panic != "" {
			fail("command-failed", "redeploy onto the same targets failed: %s %s", last.Err, last.Panic)
			return
		}
		time.Sleep(time.Duration(1+rng.IntN(2))*c17Interval + 300*time.Millisecond)
	}
	// cadence while in service: at most one probe per interval (and one for the boundary)
	const watch = 6
	time.Sleep(watch * c17Interval)
	for _, name := range names {
		k := 0
		for _, p := range w.Target(name).ProbeLog() {
			if p.Start > last.Ret+Eps && p.Start <= last.Ret+Eps+watch*c17Interval {
				k++
			}
		}
		if k > watch+1 {
			fail("probed-by-replaced-deployment:same-targets", "in the %d intervals after the redeploy onto the same targets returned (%v) %s received %d probes: the replaced deployment is still probing it", watch, last.Ret, name, k)
			return
		}
	}
	final := "remove"
	var rec *CmdRec
	if rng.IntN(2) == 0 {
		rec = w.Remove(svc)
	} else {
		final = "deploy-elsewhere"
		rec = dep([]string{"other:80"})
	}
	if rec.Err != "" || rec.Panic != "" {
		fail("command-failed", "%s failed: %s %s", final, rec.Err, rec.Panic)
		return
	}
	time.Sleep(10 * c17Interval)
	for _, name := range names {
		for _, p := range w.Target(name).ProbeLog() {
			if p.Start > rec.Ret+Eps {
				fail("probe-after-dispose:same-targets:"+final, "target %s (redeployed onto itself earlier, then %s returned at %v) was probed again at %v", name, final, rec.Ret, p.Start)
				return
			}
		}
	}
	run.Class(fmt.Sprintf("same-targets|rollout=%v|nt%d|%s", rollout, nt, final))
}

type c17Exec struct {
	cmd       c17Cmd
	rec       *CmdRec
	inflight  []string // request ids
	prevSlot  []string // targets in the slot before the command (replaced on success)
	allBefore []string // every target of the service before the command (disposed by remove)
	existed   bool
	state     string
	conflict  bool // the deploy claims s1's host while s1 really exists
}

func c17Run(t *testing.T, run *Run, sc c17Scenario) {
	w := NewWorld(t, WorldOpt{})
	defer w.Close()
	to := DefTO
	to.HealthCheckConfig.Interval = c17Interval
	to.HealthCheckConfig.Timeout = c17ProbeTO
	if sc.FastIv {
		to.HealthCheckConfig.Interval, to.HealthCheckConfig.Timeout = 300*time.Millisecond, time.Second
	}
	// live model of what the proxy should hold (updated from actual command results)
	type svcState struct {
		active, rollout []string
		state           string
		hosts           []string
	}
	svcs := map[string]*svcState{}
	var mmu sync.Mutex
	_ = mmu
	var execs []*c17Exec
	reqN := 0
	type natural struct {
		fin     time.Duration // absolute natural finish (client abort for never-finishing ones)
		upgrade bool
	}
	nat := map[string]natural{}
	runCmd := func(ex *c17Exec, issue time.Duration) {
		c := ex.cmd
		mmu.Lock()
		st := svcs[c.Svc]
		if st != nil {
			cp := *st
			st = &cp
		}
		// a deploy conflicts iff another live service owns one of the hosts it claims
		if c.Kind == "deploy" {
			claim := c17Hosts[c.Svc]
			if c.Conflict {
				claim = c17Hosts["s1"]
			}
			for other, o := range svcs {
				if other != c.Svc && contains(o.hosts, claim) {
					ex.conflict = true
				}
			}
		}
		mmu.Unlock()
		ex.existed = st != nil
		if st != nil {
			ex.state = st.state
			ex.allBefore = append(append([]string{}, st.active...), st.rollout...)
			if c.Kind == "rollout-deploy" {
				ex.prevSlot = st.rollout
			} else {
				ex.prevSlot = st.active
			}
		}
		// in-flight requests, only meaningful on a running service
		if st != nil && st.state == "running" {
			w.SleepUntil(issue - 20*time.Millisecond + OffArrival)
			for _, f := range c.Inflight {
				mmu.Lock()
				reqN++
				myN := reqN
				mmu.Unlock()
				id := fmt.Sprintf("f%d", myN)
				ex.inflight = append(ex.inflight, id)
				r := Req{ID: id, Host: st.hosts[0], Path: "/w"}
				if c.Kind == "rollout-deploy" || (len(st.rollout) > 0 && myN%2 == 0 && c.Kind != "deploy") {
					r.Hdr = [][2]string{{"Cookie", "kamal-rollout=u1"}}
				}
				sentAt := issue - 20*time.Millisecond + OffArrival
				switch f.Kind {
				case "never":
					r.Mode, r.AbortAfter = "hang", 120*time.Second
					mmu.Lock()
					nat[id] = natural{fin: sentAt + r.AbortAfter}
					mmu.Unlock()
				case "upgrade":
					r.Mode, r.AbortAfter = "upgrade", 120*time.Second
					mmu.Lock()
					nat[id] = natural{fin: sentAt + r.AbortAfter, upgrade: true}
					mmu.Unlock()
				default:
					r.Lat = f.Fin + 20*time.Millisecond - OffArrival
					mmu.Lock()
					nat[id] = natural{fin: sentAt + r.Lat}
					mmu.Unlock()
				}
				w.WG.Add(1)
				go func() { defer w.WG.Done(); w.Do(r) }()
			}
		}
		w.SleepUntil(issue)
		var names []string
		for _, tg := range c.Targets {
			w.AddTarget(tg.Name, tg.script(sc.FastIv))
			names = append(names, tg.Name)
		}
		switch c.Kind {
		case "deploy":
			so := server.ServiceOptions{TLSRedirect: true, Hosts: []string{c17Hosts[c.Svc]}}
			if c.Conflict {
				so.Hosts = []string{c17Hosts["s1"]}
			}
			ex.rec = w.Deploy(c.Svc, names, so, to, c.DeployTO, c.DrainTO)
			if ex.rec.Err == "" {
				mmu.Lock()
				if svcs[c.Svc] == nil {
					svcs[c.Svc] = &svcState{state: "running"}
				}
				svcs[c.Svc].active, svcs[c.Svc].hosts = names, so.Hosts
				mmu.Unlock()
			}
		case "rollout-deploy":
			ex.rec = w.RolloutDeploy(c.Svc, names, c.DeployTO, c.DrainTO)
			if ex.rec.Err == "" && st != nil {
				mmu.Lock()
				if svcs[c.Svc] != nil {
					svcs[c.Svc].rollout = names
				}
				mmu.Unlock()
				w.Router.SetRolloutSplit(c.Svc, 100, nil)
			}
		case "pause":
			ex.rec = w.Pause(c.Svc, c.DrainTO, 1000*time.Second)
			if ex.rec.Err == "" {
				mmu.Lock()
				if svcs[c.Svc] != nil {
					svcs[c.Svc].state = "paused"
				}
				mmu.Unlock()
			}
		case "stop":
			ex.rec = w.Stop(c.Svc, c.DrainTO, "x")
			if ex.rec.Err == "" {
				mmu.Lock()
				if svcs[c.Svc] != nil {
					svcs[c.Svc].state = "stopped"
				}
				mmu.Unlock()
			}
		case "resume":
			ex.rec = w.Resume(c.Svc)
			if ex.rec.Err == "" {
				mmu.Lock()
				if svcs[c.Svc] != nil {
					svcs[c.Svc].state = "running"
				}
				mmu.Unlock()
			}
		case "remove":
			ex.rec = w.Remove(c.Svc)
			if ex.rec.Err == "" {
				mmu.Lock()
				delete(svcs, c.Svc)
				mmu.Unlock()
			}
		case "rollout-set":
			ex.rec = w.RolloutSet(c.Svc, 50, []string{"a"})
		case "rollout-stop":
			ex.rec = w.RolloutStop(c.Svc)
		case "list":
			ex.rec = w.Cmd("list", "", func() error { w.Router.ListActiveServices(); return nil })
		}
	}
	overlapped := false
	w.At(0, func() {
		for i := range sc.Cmds {
			ex := &c17Exec{cmd: sc.Cmds[i]}
			execs = append(execs, ex)
			issue := (w.Now()/time.Second + 1) * time.Second
			if ex.cmd.Overlap {
				// thorough tier: fire concurrently with whatever follows (no exact-time clauses judged)
				overlapped = true
				w.WG.Add(1)
				go func() { defer w.WG.Done(); runCmd(ex, issue) }()
				continue
			}
			runCmd(ex, issue)
		}
	})
	w.Wait()
	// watch for stray probes for 30 intervals, then remove everything and watch again:
	// a proxy without services probes nothing
	tQuiet := w.Now()
	time.Sleep(30 * c17Interval)
	for name := range w.Router.ListActiveServices() {
		w.Router.ResumeService(name)
		w.Router.RemoveService(name)
	}
	tEmpty := w.Now()
	time.Sleep(5 * c17Interval)

	// ---------- oracle ----------
	run.Eval()
	fail := func(sig, format string, a ...any) {
		run.Violate(sig, fmt.Sprintf(format, a...), sc, func() []string { return w.Trace(400) })
	}
	resps := map[string]Resp{}
	for _, r := range w.RespLog() {
		resps[r.ID] = r
	}
	treq := map[string]ReqRec{}
	for _, ft := range w.Targets {
		for _, q := range ft.ReqLog() {
			treq[q.ID] = q
		}
	}
	type disposed struct {
		target string
		at     time.Duration
		why    string
	}
	var disp []disposed
	classes := map[string]bool{}
	for _, ex := range execs {
		c, rec := ex.cmd, ex.rec
		if overlapped {
			// overlapping commands: the sequential model of what each command replaced does not
			// apply; only the absolute time bounds, panics and the final sweep are judged
			if rec == nil || !rec.Done {
				run.Inconclusive("command %s did not complete", c.Kind)
				return
			}
			if rec.Panic != "" {
				fail("panic:"+c.Kind, "command %s panicked: %s", c.Kind, rec.Panic)
				return
			}
			took := rec.Ret - rec.Issue
			bound := time.Duration(0)
			switch c.Kind {
			case "deploy", "rollout-deploy":
				bound = c.DeployTO + c.DrainTO
			case "pause", "stop":
				bound = c.DrainTO
			}
			if took > bound+Eps {
				fail("exceeds-bound:overlapping-commands:"+c.Kind, "%s took %v, bound %v", c.Kind, took, bound)
				return
			}
			classes["overlap|"+c.Kind] = true
			continue
		}
		if rec == nil || !rec.Done {
			run.Inconclusive("command %s did not complete", c.Kind)
			return
		}
		if rec.Panic != "" {
			fail("panic:"+c.Kind, "command %s panicked: %s", c.Kind, rec.Panic)
			return
		}
		took := rec.Ret - rec.Issue
		// openAt: latest natural finish among the (non-upgraded) requests open on the given
		// targets at instant at, from the targets' own logs
		openAt := func(targets []string, at time.Duration) (F time.Duration, n int) {
			F = at
			for _, name := range targets {
				for _, q := range w.Target(name).ReqLog() {
					nf, ok := nat[q.ID]
					if !ok || nf.upgrade || q.Recv > at || nf.fin <= at {
						continue
					}
					if q.Outcome != "open" && q.End < at {
						continue
					}
					n++
					if nf.fin > F {
						F = nf.fin
					}
				}
			}
			return
		}
		switch c.Kind {
		case "deploy", "rollout-deploy":
			if !ex.existed && c.Kind == "rollout-deploy" {
				if rec.Err == "" || took > Eps {
					fail("unknown-service-slow", "rollout deploy for unknown service: err=%q took %v", rec.Err, took)
					return
				}
				continue
			}
			allGood, tie := true, false
			th := rec.Issue // no target may have been probed at all (a deploy refused before creating targets)
			for _, tg := range c.Targets {
				fg := time.Duration(-1)
				for _, p := range w.Target(tg.Name).ProbeLog() {
					if p.Passed(to.HealthCheckConfig.Timeout) {
						fg = p.End
						break
					}
				}
				want := time.Duration(tg.FirstOK) * c17Interval
				if tg.FirstOK < 0 || want > c.DeployTO+2*Eps {
					allGood = false
				} else if absDur(want-c.DeployTO) <= 2*Eps {
					tie = true
				} else if fg > th {
					th = fg
				}
			}
			if tie || c.DeployTO < 4*Eps && allGood {
				run.Count("ties_skipped", 1)
				// outcome not judged; but whatever happened, the absolute bound holds
				if took > c.DeployTO+c.DrainTO+Eps {
					fail("deploy-exceeds-bound", "%s took %v > deploy-timeout %v + drain-timeout %v", c.Kind, took, c.DeployTO, c.DrainTO)
					return
				}
				if rec.Err != "" {
					why := "failed deploy"
					if ex.conflict {
						why = "failed deploy (host conflict)"
					}
					for _, tg := range c.Targets {
						disp = append(disp, disposed{tg.Name, rec.Ret, why})
					}
				} else {
					for _, n := range ex.prevSlot {
						disp = append(disp, disposed{n, rec.Ret, "replaced"})
					}
				}
				continue
			}
			if ex.conflict && !allGood {
				// both refused by a host conflict and unable to become healthy: it must fail, and no
				// later than the deploy timeout; which of the two reasons is reported first is not fixed
				if rec.Err == "" {
					fail("conflict-accepted", "deploy of %s onto the host of s1 succeeded", c.Svc)
					return
				}
				if took > c.DeployTO+Eps {
					fail("deploy-exceeds-bound", "failing %s took %v, deploy-timeout %v", c.Kind, took, c.DeployTO)
					return
				}
				for _, tg := range c.Targets {
					disp = append(disp, disposed{tg.Name, rec.Ret, "failed deploy (host conflict)"})
				}
				continue
			}
			if !allGood {
				if rec.Err == "" {
					fail("deploy-should-fail", "%s returned success although a target never became healthy in time", c.Kind)
					return
				}
				if !ex.cmd.Overlap && !overlapped && !near(rec.Ret, rec.Issue+c.DeployTO) {
					fail("failed-deploy-return-time", "failed %s returned after %v, deploy-timeout is %v", c.Kind, took, c.DeployTO)
					return
				}
				for _, tg := range c.Targets {
					disp = append(disp, disposed{tg.Name, rec.Ret, "failed deploy"})
				}
				classes["deploy-timeout|"+c.Targets[0].FailKind] = true
				continue
			}
			if ex.conflict {
				if rec.Err == "" {
					fail("conflict-accepted", "deploy of %s onto the host of s1 succeeded", c.Svc)
					return
				}
				if rec.Ret > th+Eps && !overlapped {
					fail("conflict-return-time", "host-conflict deploy returned at %v, targets were healthy at %v", rec.Ret, th)
					return
				}
				for _, tg := range c.Targets {
					disp = append(disp, disposed{tg.Name, rec.Ret, "failed deploy (host conflict)"})
				}
				classes["deploy-conflict"] = true
				continue
			}
			if rec.Err != "" {
				fail("deploy-should-succeed", "%s failed (%s) although every target passed a probe at %v within the deploy timeout %v", c.Kind, rec.Err, th-rec.Issue, c.DeployTO)
				return
			}
			if took > c.DeployTO+c.DrainTO+Eps {
				fail("deploy-exceeds-bound", "%s took %v > deploy-timeout %v + drain-timeout %v", c.Kind, took, c.DeployTO, c.DrainTO)
				return
			}
			F, nOpen := openAt(ex.prevSlot, th)
			if !overlapped {
				upper := min(th+c.DrainTO, F)
				if rec.Ret > upper+Eps {
					fail("deploy-not-prompt", "%s returned at %v; targets healthy at %v, %d requests open on the replaced targets finish by %v, drain-timeout %v: expected by %v", c.Kind, rec.Ret, th, nOpen, F, c.DrainTO, upper)
					return
				}
			}
			for _, n := range ex.prevSlot {
				disp = append(disp, disposed{n, rec.Ret, "replaced"})
			}
			classes[fmt.Sprintf("%s-ok|open=%d|cut=%v|drain=%v", c.Kind, min(nOpen, 3), F > th+c.DrainTO, c.DrainTO)] = true
		case "pause", "stop":
			if !ex.existed {
				if rec.Err == "" || took > Eps {
					fail("unknown-service-slow", "%s for unknown service: err=%q took %v", c.Kind, rec.Err, took)
					return
				}
				continue
			}
			if rec.Err != "" {
				fail("command-failed", "%s failed: %s", c.Kind, rec.Err)
				return
			}
			if took > c.DrainTO+Eps {
				fail("drain-exceeds-bound", "%s took %v > drain-timeout %v", c.Kind, took, c.DrainTO)
				return
			}
			F, nOpen := openAt(ex.allBefore, rec.Issue)
			if !overlapped {
				upper := min(rec.Issue+c.DrainTO, F)
				if rec.Ret > upper+Eps {
					fail("drain-not-prompt", "%s returned at %v; issued %v, %d requests open on its targets finish by %v, drain-timeout %v: expected by %v", c.Kind, rec.Ret, rec.Issue, nOpen, F, c.DrainTO, upper)
					return
				}
			}
			classes[fmt.Sprintf("%s|open=%d|cut=%v|drain=%v", c.Kind, min(nOpen, 3), F > rec.Issue+c.DrainTO, c.DrainTO)] = true
		default:
			if took > Eps && !overlapped {
				fail("instant-command-waited", "%s took %v", c.Kind, took)
				return
			}
			if c.Kind == "remove" && rec.Err == "" {
				for _, n := range ex.allBefore {
					disp = append(disp, disposed{n, rec.Ret, "removed"})
				}
				classes["remove"] = true
			}
		}
	}
	// no probe starts after the disposal of its target
	for _, d := range disp {
		for _, p := range w.Target(d.target).ProbeLog() {
			if p.Start > d.at+Eps {
				why := strings.ReplaceAll(d.why, " ", "-")
				sig := "probe-after-dispose:" + why
				if overlapped {
					sig += ":overlapping-commands"
				}
				fail(sig, "target %s (%s at %v) was probed again at %v", d.target, d.why, d.at, p.Start)
				return
			}
		}
	}
	for name, ft := range w.Targets {
		for _, p := range ft.ProbeLog() {
			if p.Start > tEmpty+Eps {
				sig := "probe-after-everything-removed"
				if overlapped {
					// name the command that created the leaked target and the kinds of the
					// commands on the same service that overlapped it
					var creator *c17Exec
					for _, ex := range execs {
						for _, tg := range ex.cmd.Targets {
							if tg.Name == name {
								creator = ex
							}
						}
					}
					with := map[string]bool{}
					if creator != nil && creator.rec != nil {
						for _, ex := range execs {
							if ex != creator && ex.rec != nil && ex.cmd.Svc == creator.cmd.Svc && strings.HasSuffix(ex.cmd.Kind, "deploy") && ex.rec.Issue <= creator.rec.Ret && creator.rec.Issue <= ex.rec.Ret {
								with[ex.cmd.Kind] = true
							}
						}
						var ks []string
						for k := range with {
							ks = append(ks, k)
						}
						sort.Strings(ks)
						sig += ":overlapping-commands:leaked-by=" + creator.cmd.Kind + ":with=" + strings.Join(ks, "+")
					}
				}
				fail(sig, "every service was removed at %v, yet target %s was probed at %v", tEmpty, name, p.Start)
				return
			}
		}
	}
	run.Count("disposed_targets_watched", len(disp))
	run.Count("watch_virtual_seconds", int((w.Now()-tQuiet)/time.Second))
	for k := range classes {
		run.Class(k)
	}
	run.Sample(map[string]any{"scenario": sc, "commands": len(execs), "disposed_watched": len(disp)})
}
