package verifharness

// SIM engine: the real Router / Server middleware chain inside a testing/synctest
// bubble, on an in-memory network with scripted fake targets (DESIGN 3.3).

import (
	"bufio"
	"bytes"
	"context"
	"crypto/tls"
	"errors"
	"fmt"
	"io"
	"log"
	"log/slog"
	"net"
	"net/http"
	"os"
	"path/filepath"
	"runtime"
	"sort"
	"strconv"
	"strings"
	"sync"
	"testing"
	"time"

	"github.com/basecamp/kamal-proxy/internal/server"
)

// ---------- in-memory network ----------

type memListener struct {
	ch     chan net.Conn
	closed chan struct{}
	once   sync.Once
	addr   net.Addr
}

func newMemListener(port int) *memListener {
	return &memListener{ch: make(chan net.Conn), closed: make(chan struct{}), addr: &net.TCPAddr{IP: net.IPv4(10, 0, 0, 1), Port: port}}
}
func (l *memListener) Accept() (net.Conn, error) {
	select {
	case c := <-l.ch:
		return c, nil
	case <-l.closed:
		return nil, net.ErrClosed
	}
}
func (l *memListener) Close() error   { l.once.Do(func() { close(l.closed) }); return nil }
func (l *memListener) Addr() net.Addr { return l.addr }

// addrConn gives a net.Pipe end TCP-looking addresses (X-Forwarded-For needs a host:port RemoteAddr).
type addrConn struct {
	net.Conn
	local, remote net.Addr
}

func (c addrConn) LocalAddr() net.Addr  { return c.local }
func (c addrConn) RemoteAddr() net.Addr { return c.remote }

type lockedBuffer struct {
	mu sync.Mutex
	b  bytes.Buffer
}

func (l *lockedBuffer) Write(p []byte) (int, error) {
	l.mu.Lock()
	defer l.mu.Unlock()
	return l.b.Write(p)
}
func (l *lockedBuffer) String() string {
	l.mu.Lock()
	defer l.mu.Unlock()
	return l.b.String()
}
func (l *lockedBuffer) Bytes() []byte {
	l.mu.Lock()
	defer l.mu.Unlock()
	return append([]byte(nil), l.b.Bytes()...)
}

// ---------- records ----------

type HookRec struct {
	At    time.Duration `json:"at"`
	Point string        `json:"point"`
	Req   string        `json:"req,omitempty"`
	Name  string        `json:"name,omitempty"`
	Extra string        `json:"extra,omitempty"`
}

type ProbeRec struct {
	N        int           `json:"n"`
	Start    time.Duration `json:"start"`
	End      time.Duration `json:"end"`
	Status   int           `json:"status"` // -1 refused, 0 closed without answer
	Accepted bool          `json:"accepted"`
	Path     string        `json:"path,omitempty"`
	Ended    bool          `json:"ended"`
	HungUp   bool          `json:"hung_up,omitempty"` // the prober closed the connection before the (delayed) answer
}

// Passed: the probe was answered with a 2xx status, the prober took the answer, and the answer came
// within the configured probe timeout (judged from the target's side: a prober that waits longer
// than configured must not turn a late answer into a success).
func (p ProbeRec) Passed(timeout time.Duration) bool {
	return p.Ended && p.Accepted && p.Status >= 200 && p.Status <= 299 && p.End-p.Start <= timeout
}

type ReqRec struct {
	ID      string        `json:"id"`
	Target  string        `json:"target"`
	Recv    time.Duration `json:"recv"`
	End     time.Duration `json:"end"`
	Outcome string        `json:"outcome"` // done | aborted | writeerr | open | upgrade-closed
	Method  string        `json:"method,omitempty"`
	URI     string        `json:"uri,omitempty"`
	Host    string        `json:"host,omitempty"`
	Header  http.Header   `json:"-"`
	Body    []byte        `json:"-"`
}

type CmdRec struct {
	Name  string        `json:"name"`
	Args  string        `json:"args,omitempty"`
	Issue time.Duration `json:"issue"`
	Ret   time.Duration `json:"ret"`
	Err   string        `json:"err,omitempty"`
	Done  bool          `json:"done"`
	Panic string        `json:"panic,omitempty"`
}

type ProbeAct struct {
	Status int
	Delay  time.Duration
	Close  bool // accept, read the request, then close without answering
	Refuse bool // connection refused
}

// FakeTarget is one scripted backend reachable by name on the fake network.
type FakeTarget struct {
	Name  string
	w     *World
	Probe func(n int, at time.Duration) ProbeAct
	// Handler, if set, serves non-probe requests; return false to close the connection.
	Handler     func(ft *FakeTarget, c net.Conn, br *bufio.Reader, req *http.Request, body []byte) bool
	RefuseProxy bool
	// RawServe, if set, takes over whole proxied connections (no HTTP parsing by the harness).
	RawServe func(ft *FakeTarget, c net.Conn)

	mu     sync.Mutex
	nprobe int
	Probes []*ProbeRec
	Reqs   []*ReqRec
	conns  []net.Conn // target side of the proxied connections, for Kill
}

// Kill: the target is taken away (what the deploy tool does with a replaced container once the
// deploy command has returned): open connections are cut, new ones refused.
func (ft *FakeTarget) Kill() {
	ft.mu.Lock()
	ft.RefuseProxy = true
	cs := ft.conns
	ft.conns = nil
	ft.mu.Unlock()
	for _, c := range cs {
		c.Close()
	}
}

// handlerPanicLog receives what net/http's server logs about its connections. A panic in the
// proxy's request path is recovered by net/http (the process survives, the client's connection is
// dropped); the first line of each such report goes to stderr, where the driver counts it (a
// violation for C18, "inconclusive" for the monitor of any other property).
var handlerPanicLog = log.New(panicSink{}, "", 0)

type panicSink struct{}

func (panicSink) Write(b []byte) (int, error) {
	if i := bytes.Index(b, []byte("http: panic serving")); i >= 0 {
		line := b[i:]
		if j := bytes.IndexByte(line, '\n'); j >= 0 {
			line = line[:j]
		}
		fmt.Fprintf(os.Stderr, "VERIF-HANDLER-PANIC %s\n", line)
	}
	return len(b), nil
}

func OKProbe(n int, at time.Duration) ProbeAct { return ProbeAct{Status: 200} }

// Req is one client request. Lat/Mode are transported to the default fake-target
// handler through X-Lat / X-Mode headers.
type Req struct {
	ID     string
	Method string
	Host   string
	Path   string
	Hdr    [][2]string
	Body   []byte
	Lat    time.Duration
	Gap    time.Duration // stream mode: delay between the two parts of the response
	Mode   string        // "", hang, upgrade, close, stream, hints
	TLS    bool
	SNI    string
	Raw    []byte // sent verbatim when set
	// AbortAfter > 0: client closes its connection that long after sending.
	AbortAfter time.Duration
}

type Resp struct {
	ID       string        `json:"id"`
	Sent     time.Duration `json:"sent"`
	Done     time.Duration `json:"done"`
	Status   int           `json:"status"`
	Target   string        `json:"target,omitempty"`
	Header   http.Header   `json:"-"`
	Body     []byte        `json:"-"`
	BodyLen  int           `json:"body_len"`
	Err      string        `json:"err,omitempty"`
	Upgraded bool          `json:"upgraded,omitempty"`
	ClosedAt time.Duration `json:"closed_at,omitempty"` // upgraded: when the proxy closed the connection
	Echo     bool          `json:"echo,omitempty"`      // upgraded: echo round trip worked
	// Informational: 1xx responses received before the final one
	Informational []int `json:"informational,omitempty"`
}

// The process-wide HTTP defaults as they were before any world replaced them (LIVE scenarios put
// them back before they start).
var (
	origDefaultClient    = http.DefaultClient
	origDefaultTransport = http.DefaultTransport
)

// RestoreHTTPDefaults reinstalls the real default client and transport.
func RestoreHTTPDefaults() {
	// only written when a world really replaced them (then no goroutine of the code under test is
	// alive any more: the bubble has drained); between LIVE scenarios nothing is written
	if http.DefaultClient != origDefaultClient {
		http.DefaultClient = origDefaultClient
		http.DefaultTransport = origDefaultTransport
	}
}

// World is one scenario's universe. Create inside synctest.Test.
type World struct {
	T  *testing.T
	t0 time.Time

	mu         sync.Mutex
	done       chan struct{}
	Dir        string
	StatePath  string
	Router     *server.Router
	Srv        *server.Server
	HS         *http.Server
	ln, tlsLn  *memListener
	probeTr    *http.Transport
	conns      []net.Conn
	Targets    map[string]*FakeTarget
	Hooks      []HookRec
	Resps      []*Resp
	Cmds       []*CmdRec
	ReqDelay   map[string]map[string]time.Duration
	PointDelay map[string]func(name string, n int) time.Duration
	// PointSpin: real-time busy delays (number of scheduler yields) for hook points that sit inside a
	// lock of the code under test. A virtual sleep there would hang the bubble: a goroutine blocked
	// on a sync.Mutex is not "durably blocked", so the fake clock would never advance while another
	// goroutine waits for that lock.
	PointSpin     map[string]func(n int) int
	pointCount    map[string]int
	OnHook        func(h HookRec)
	LogBuf        *lockedBuffer
	WG            sync.WaitGroup
	prevLog       *slog.Logger
	seq           int
	LogLevel      slog.Level
	extra         []*Proxy
	MaxClientLife time.Duration
	// DialAttempts counts connection attempts made through http.DefaultClient, by address
	// (health probes and anything else that uses the default client, e.g. an ACME client).
	DialAttempts map[string]int
}

type WorldOpt struct {
	TLSListener bool
	StateDir    string // reuse an existing directory (restart scenarios)
	NoServer    bool
}

func NewWorld(t *testing.T, opt WorldOpt) *World {
	w := &World{T: t, t0: time.Now(), done: make(chan struct{}), Targets: map[string]*FakeTarget{},
		ReqDelay: map[string]map[string]time.Duration{}, PointDelay: map[string]func(string, int) time.Duration{}, pointCount: map[string]int{},
		LogBuf: &lockedBuffer{}}
	w.Dir = opt.StateDir
	if w.Dir == "" {
		w.Dir = t.TempDir()
	}
	w.StatePath = filepath.Join(w.Dir, "kamal-proxy.state")

	dial := w.dialProxy
	server.VerifDial.Store(&dial)
	hook := w.hook
	server.VerifHook.Store(&hook)

	w.probeTr = &http.Transport{DialContext: w.dialProbe, DisableKeepAlives: true}
	// (the previous default client is not remembered: it belongs to the previous world, and a chain
	// of such references kept every world of a process alive - gigabytes in the thorough tier)
	http.DefaultClient = &http.Client{Transport: w.probeTr}
	// a client created without an explicit transport uses http.DefaultTransport: route that to the
	// fake network too, so that a refactor of the prober to its own http.Client is still observed
	http.DefaultTransport = w.probeTr
	w.prevLog = slog.Default()
	slog.SetDefault(slog.New(slog.NewJSONHandler(w.LogBuf, &slog.HandlerOptions{Level: slog.LevelInfo})))

	cfg := &server.Config{AlternateConfigDir: w.Dir, HttpPort: 80, HttpsPort: 443}
	w.Router = server.NewRouter(cfg.StatePath())
	w.Srv = server.NewServer(cfg, w.Router)
	if !opt.NoServer {
		w.ln = newMemListener(80)
		w.HS = &http.Server{Handler: server.VerifHandler(w.Srv), ErrorLog: handlerPanicLog}
		go w.HS.Serve(w.ln)
		if opt.TLSListener {
			w.tlsLn = newMemListener(443)
			tl := tls.NewListener(w.tlsLn, &tls.Config{GetCertificate: w.Router.GetCertificate, NextProtos: []string{"http/1.1"}})
			go w.HS.Serve(tl)
		}
	}
	return w
}

func (w *World) Now() time.Duration { return time.Since(w.t0) }

// ClientDeadline is the longest a client connection of this world may live.
func (w *World) ClientDeadline() time.Duration {
	if w.MaxClientLife > 0 {
		return w.MaxClientLife
	}
	return 3 * time.Hour
}

// SleepUntil sleeps until the absolute virtual offset (no-op when already past).
func (w *World) SleepUntil(at time.Duration) {
	if d := at - w.Now(); d > 0 {
		time.Sleep(d)
	}
}

// sleep returns false when the world was closed first.
func (w *World) sleep(d time.Duration) bool {
	if d <= 0 {
		select {
		case <-w.done:
			return false
		default:
			return true
		}
	}
	tm := time.NewTimer(d)
	defer tm.Stop()
	select {
	case <-tm.C:
		return true
	case <-w.done:
		return false
	}
}

// At runs f in its own goroutine at the absolute virtual offset; World.Wait waits for it.
func (w *World) At(at time.Duration, f func()) {
	w.WG.Add(1)
	go func() {
		defer w.WG.Done()
		w.SleepUntil(at)
		f()
	}()
}

func (w *World) Wait() { w.WG.Wait() }

func (w *World) track(c ...net.Conn) {
	w.mu.Lock()
	w.conns = append(w.conns, c...)
	w.mu.Unlock()
}

// ---------- hook sink ----------

func (w *World) hook(point string, args ...any) {
	h := HookRec{At: w.Now(), Point: point}
	for i, a := range args {
		switch v := a.(type) {
		case *http.Request:
			h.Req = v.Header.Get("X-V")
		case string:
			if h.Name == "" && i <= 1 {
				h.Name = v
			} else {
				h.Extra += v
			}
		case error:
			if v != nil {
				h.Extra += "err=" + v.Error()
			}
		case bool:
			h.Extra += strconv.FormatBool(v)
		case int:
			h.Extra += strconv.Itoa(v)
		}
	}
	var d time.Duration
	w.mu.Lock()
	w.Hooks = append(w.Hooks, h)
	key := point + "|" + h.Name
	n := w.pointCount[key]
	w.pointCount[key] = n + 1
	if h.Req != "" {
		d = w.ReqDelay[h.Req][point]
	}
	f := w.PointDelay[point]
	spin := w.PointSpin[point]
	on := w.OnHook
	w.mu.Unlock()
	if spin != nil {
		for i := spin(n); i > 0; i-- {
			runtime.Gosched()
		}
	}
	if f != nil && h.Req == "" {
		d += f(h.Name, n)
	}
	if on != nil {
		on(h)
	}
	if d > 0 {
		w.sleep(d)
	}
}

// SetPointDelay: constant delay at a command-side hook point.
func (w *World) SetPointDelay(point string, d time.Duration) {
	w.mu.Lock()
	w.PointDelay[point] = func(string, int) time.Duration { return d }
	w.mu.Unlock()
}

func (w *World) SetReqDelay(id, point string, d time.Duration) {
	w.mu.Lock()
	if w.ReqDelay[id] == nil {
		w.ReqDelay[id] = map[string]time.Duration{}
	}
	w.ReqDelay[id][point] = d
	w.mu.Unlock()
}

func (w *World) ClearDelays() {
	w.mu.Lock()
	w.ReqDelay = map[string]map[string]time.Duration{}
	w.PointDelay = map[string]func(string, int) time.Duration{}
	w.PointSpin = nil
	w.mu.Unlock()
}

// HookTimes returns the times of hook events matching point (and name when non-empty).
func (w *World) HookTimes(point, name string) []time.Duration {
	w.mu.Lock()
	defer w.mu.Unlock()
	var out []time.Duration
	for _, h := range w.Hooks {
		if h.Point == point && (name == "" || h.Name == name) {
			out = append(out, h.At)
		}
	}
	return out
}

func (w *World) ReqHook(id, point string) (time.Duration, bool) {
	w.mu.Lock()
	defer w.mu.Unlock()
	for _, h := range w.Hooks {
		if h.Point == point && h.Req == id {
			return h.At, true
		}
	}
	return 0, false
}

// ---------- fake network ----------

func dialAddr(name string) string {
	if strings.Contains(name, ":") {
		return name
	}
	return name + ":80"
}

// AddTarget registers a fake target under the name used in deploy commands.
func (w *World) AddTarget(name string, probe func(n int, at time.Duration) ProbeAct) *FakeTarget {
	if probe == nil {
		probe = OKProbe
	}
	ft := &FakeTarget{Name: name, w: w, Probe: probe}
	w.mu.Lock()
	w.Targets[dialAddr(name)] = ft
	w.mu.Unlock()
	return ft
}

func (w *World) Target(name string) *FakeTarget {
	w.mu.Lock()
	defer w.mu.Unlock()
	return w.Targets[dialAddr(name)]
}

type refusedErr struct{ addr string }

func (e refusedErr) Error() string   { return "dial tcp " + e.addr + ": connect: connection refused" }
func (e refusedErr) Timeout() bool   { return false }
func (e refusedErr) Temporary() bool { return false }

func (w *World) pipe(remoteForServer string) (client, srv net.Conn) {
	a, b := net.Pipe()
	w.mu.Lock()
	w.seq++
	port := 20000 + w.seq%40000
	w.mu.Unlock()
	ca := &net.TCPAddr{IP: net.ParseIP(remoteForServer), Port: port}
	sa := &net.TCPAddr{IP: net.IPv4(10, 0, 0, 1), Port: 80}
	client = addrConn{a, ca, sa}
	srv = addrConn{b, sa, ca}
	w.track(a, b)
	return
}

func (w *World) isDone() bool {
	select {
	case <-w.done:
		return true
	default:
		return false
	}
}

func (w *World) dialProbe(ctx context.Context, network, addr string) (net.Conn, error) {
	w.mu.Lock()
	ft := w.Targets[addr]
	if w.DialAttempts == nil {
		w.DialAttempts = map[string]int{}
	}
	w.DialAttempts[addr]++
	w.mu.Unlock()
	if ft == nil || w.isDone() {
		return nil, refusedErr{addr}
	}
	ft.mu.Lock()
	n := ft.nprobe
	ft.nprobe++
	ft.mu.Unlock()
	act := ft.Probe(n, w.Now())
	rec := &ProbeRec{N: n, Start: w.Now(), Status: act.Status}
	ft.mu.Lock()
	ft.Probes = append(ft.Probes, rec)
	ft.mu.Unlock()
	if act.Refuse {
		ft.mu.Lock()
		rec.Status, rec.End, rec.Ended = -1, w.Now(), true
		ft.mu.Unlock()
		return nil, refusedErr{addr}
	}
	c, s := w.pipe("10.0.0.1")
	go ft.serveProbe(s, act, rec)
	return c, nil
}

func (w *World) dialProxy(ctx context.Context, network, addr string) (net.Conn, error) {
	w.mu.Lock()
	ft := w.Targets[addr]
	w.mu.Unlock()
	if ft == nil || w.isDone() {
		return nil, refusedErr{addr}
	}
	ft.mu.Lock()
	refuse := ft.RefuseProxy
	ft.mu.Unlock()
	if refuse {
		return nil, refusedErr{addr}
	}
	c, s := w.pipe("10.0.0.1")
	ft.mu.Lock()
	ft.conns = append(ft.conns, s)
	ft.mu.Unlock()
	if ft.RawServe != nil {
		go func() { defer s.Close(); ft.RawServe(ft, s) }()
		return c, nil
	}
	go ft.serve(s)
	return c, nil
}

func (ft *FakeTarget) serveProbe(c net.Conn, act ProbeAct, rec *ProbeRec) {
	defer c.Close()
	w := ft.w
	br := bufio.NewReader(c)
	req, err := http.ReadRequest(br)
	if err != nil {
		ft.mu.Lock()
		rec.End, rec.Ended = w.Now(), true
		ft.mu.Unlock()
		return
	}
	io.Copy(io.Discard, req.Body)
	ft.mu.Lock()
	rec.Path = req.URL.RequestURI()
	ft.mu.Unlock()
	if act.Delay > 0 && !ft.waitOrClosed(c, br, act.Delay) {
		// the prober hung up (or the world ended) while the target was still thinking
		ft.mu.Lock()
		rec.End, rec.Ended, rec.HungUp = w.Now(), true, true
		ft.mu.Unlock()
		return
	}
	if act.Close || act.Status == 0 {
		ft.mu.Lock()
		rec.Status, rec.End, rec.Ended = 0, w.Now(), true
		ft.mu.Unlock()
		return
	}
	_, err = fmt.Fprintf(c, "HTTP/1.1 %d X\r\nContent-Length: 0\r\nConnection: close\r\n\r\n", act.Status)
	ft.mu.Lock()
	rec.End, rec.Ended, rec.Accepted = w.Now(), true, err == nil
	ft.mu.Unlock()
}

// serve handles proxied (client) requests on one connection.
func (ft *FakeTarget) serve(c net.Conn) {
	defer c.Close()
	w := ft.w
	br := bufio.NewReader(c)
	for {
		req, err := http.ReadRequest(br)
		if err != nil {
			return
		}
		body, _ := io.ReadAll(req.Body)
		if ft.Handler != nil {
			if !ft.Handler(ft, c, br, req, body) {
				return
			}
			continue
		}
		if !ft.defaultHandle(c, br, req, body) {
			return
		}
		_ = w
	}
}

func (ft *FakeTarget) newReq(req *http.Request, body []byte) *ReqRec {
	rec := &ReqRec{ID: req.Header.Get("X-V"), Target: ft.Name, Recv: ft.w.Now(), Outcome: "open", Method: req.Method, URI: req.RequestURI, Host: req.Host, Header: req.Header.Clone(), Body: body}
	ft.mu.Lock()
	ft.Reqs = append(ft.Reqs, rec)
	ft.mu.Unlock()
	return rec
}

func (ft *FakeTarget) end(rec *ReqRec, outcome string) {
	ft.mu.Lock()
	rec.End, rec.Outcome = ft.w.Now(), outcome
	ft.mu.Unlock()
}

// waitOrClosed waits d on an idle request connection; it returns false if the
// peer closed the connection (or the world ended) before d elapsed.
func (ft *FakeTarget) waitOrClosed(c net.Conn, br *bufio.Reader, d time.Duration) bool {
	if d <= 0 {
		return true
	}
	w := ft.w
	res := make(chan error, 1)
	c.SetReadDeadline(time.Now().Add(d))
	go func() { _, err := br.Peek(1); res <- err }()
	select {
	case err := <-res:
		c.SetReadDeadline(time.Time{})
		var ne net.Error
		if errors.As(err, &ne) && ne.Timeout() {
			return true
		}
		if errors.Is(err, os.ErrDeadlineExceeded) {
			return true
		}
		return false // EOF / closed pipe (or unexpected pipelined data)
	case <-w.done:
		c.Close()
		<-res
		return false
	}
}

func (ft *FakeTarget) defaultHandle(c net.Conn, br *bufio.Reader, req *http.Request, body []byte) bool {
	rec := ft.newReq(req, body)
	mode := req.Header.Get("X-Mode")
	lat, _ := strconv.ParseInt(req.Header.Get("X-Lat"), 10, 64)
	switch mode {
	case "hang":
		ft.waitOrClosed(c, br, 1000*time.Hour)
		ft.end(rec, "aborted")
		return false
	case "close":
		ft.end(rec, "closed")
		return false
	case "upgrade":
		_, err := fmt.Fprintf(c, "HTTP/1.1 101 Switching Protocols\r\nConnection: Upgrade\r\nUpgrade: websocket\r\nX-Target: %s\r\n\r\n", ft.Name)
		if err != nil {
			ft.end(rec, "writeerr")
			return false
		}
		buf := make([]byte, 256)
		for {
			n, err := br.Read(buf)
			if n > 0 {
				if _, werr := c.Write(buf[:n]); werr != nil {
					break
				}
			}
			if err != nil {
				break
			}
		}
		ft.end(rec, "upgrade-closed")
		return false
	}
	if lat == 0 && len(body) > 0 {
		// A real target cannot answer in zero time. Answering a request that has a body at the
		// very instant its last byte arrived races net/http's own bookkeeping in the proxy (the
		// server closes the request body when the response header is written while the
		// transport's writer is still finishing with it); any positive virtual delay lets every
		// goroutine settle first. See DESIGN.md section 11.
		lat = int64(OffTarget)
	}
	if !ft.waitOrClosed(c, br, time.Duration(lat)) {
		ft.end(rec, "aborted")
		return false
	}
	if mode == "stream" {
		// a response without Content-Length, streamed in two chunks with the latency between them
		// (the proxy relays and flushes the first part while the second is still to come)
		if _, err := fmt.Fprintf(c, "HTTP/1.1 200 OK\r\nTransfer-Encoding: chunked\r\nX-Target: %s\r\n\r\n5\r\npart1\r\n", ft.Name); err != nil {
			ft.end(rec, "writeerr")
			return false
		}
		gap, _ := strconv.ParseInt(req.Header.Get("X-Gap"), 10, 64)
		if !ft.waitOrClosed(c, br, time.Duration(gap)) {
			ft.end(rec, "aborted")
			return false
		}
		if _, err := fmt.Fprintf(c, "5\r\npart2\r\n0\r\n\r\n"); err != nil {
			ft.end(rec, "writeerr")
			return false
		}
		ft.end(rec, "done")
		return true
	}
	if mode == "hints" { // informational response(s) before the final one
		fmt.Fprintf(c, "HTTP/1.1 103 Early Hints\r\nLink: </style.css>; rel=preload\r\n\r\n")
	}
	// the default answer echoes what matters for behavioural snapshots (C06/C11)
	payload := ft.Name
	if sz, err := strconv.Atoi(req.Header.Get("X-Size")); err == nil && sz >= 0 {
		payload = strings.Repeat("x", sz)
	}
	_, err := fmt.Fprintf(c, "HTTP/1.1 200 OK\r\nContent-Length: %d\r\nX-Target: %s\r\nX-Echo-Uri: %s\r\nX-Echo-Xff: %s\r\nX-Echo-Xfp: %s\r\nX-Echo-Len: %d\r\n\r\n%s",
		len(payload), ft.Name, req.RequestURI, strings.Join(req.Header.Values("X-Forwarded-For"), "|"), strings.Join(req.Header.Values("X-Forwarded-Proto"), "|"), len(body), headless(req.Method, payload))
	if err != nil {
		ft.end(rec, "writeerr")
		return false
	}
	ft.end(rec, "done")
	return true
}

// headless: a HEAD response carries no body.
func headless(method, body string) string {
	if method == "HEAD" {
		return ""
	}
	return body
}

// Snapshot copies of the logs (safe while the world runs).
func (ft *FakeTarget) ProbeLog() []ProbeRec {
	ft.mu.Lock()
	defer ft.mu.Unlock()
	out := make([]ProbeRec, len(ft.Probes))
	for i, p := range ft.Probes {
		out[i] = *p
	}
	return out
}

func (ft *FakeTarget) ReqLog() []ReqRec {
	ft.mu.Lock()
	defer ft.mu.Unlock()
	out := make([]ReqRec, len(ft.Reqs))
	for i, p := range ft.Reqs {
		out[i] = *p
	}
	return out
}

// ---------- clients ----------

// Proxy is an additional proxy instance (router + full handler chain + listeners) living in
// the same world as the primary one: used to compare a restored proxy with the original.
type Proxy struct {
	w         *World
	Dir       string
	StatePath string
	Router    *server.Router
	Srv       *server.Server
	HS        *http.Server
	ln, tlsLn *memListener
}

// NewProxy creates a second proxy whose state file lives in dir.
func (w *World) NewProxy(dir string) *Proxy {
	cfg := &server.Config{AlternateConfigDir: dir, HttpPort: 80, HttpsPort: 443}
	p := &Proxy{w: w, Dir: dir, StatePath: cfg.StatePath()}
	p.Router = server.NewRouter(cfg.StatePath())
	p.Srv = server.NewServer(cfg, p.Router)
	p.ln, p.tlsLn = newMemListener(80), newMemListener(443)
	p.HS = &http.Server{Handler: server.VerifHandler(p.Srv), ErrorLog: handlerPanicLog}
	go p.HS.Serve(p.ln)
	go p.HS.Serve(tls.NewListener(p.tlsLn, &tls.Config{GetCertificate: p.Router.GetCertificate, NextProtos: []string{"http/1.1"}}))
	w.mu.Lock()
	w.extra = append(w.extra, p)
	w.mu.Unlock()
	return p
}

// Primary returns the world's own proxy in Proxy form.
func (w *World) Primary() *Proxy {
	return &Proxy{w: w, Dir: w.Dir, StatePath: w.StatePath, Router: w.Router, Srv: w.Srv, HS: w.HS, ln: w.ln, tlsLn: w.tlsLn}
}

func (p *Proxy) Do(r Req) *Resp { return p.w.doOn(p.ln, p.tlsLn, r) }

func (w *World) connect(useTLS bool, sni string) (net.Conn, error) {
	return w.connectOn(w.ln, w.tlsLn, useTLS, sni)
}

func (w *World) connectOn(plain, tlsLn *memListener, useTLS bool, sni string) (net.Conn, error) {
	ln := plain
	if useTLS {
		ln = tlsLn
	}
	if ln == nil {
		return nil, errors.New("no listener")
	}
	c, s := w.pipe("10.9.8.7")
	select {
	case ln.ch <- s:
	case <-w.done:
		return nil, errors.New("world closed")
	}
	// Guard: no client waits forever. A proxy that never answers (or a client that cannot tell
	// where a response ends) errors out after 3 virtual hours instead of hanging the scenario;
	// legitimate waits in the scenarios are far shorter.
	c.SetDeadline(time.Now().Add(w.ClientDeadline()))
	if useTLS {
		tc := tls.Client(c, &tls.Config{InsecureSkipVerify: true, ServerName: sni, NextProtos: []string{"http/1.1"}})
		return tc, nil
	}
	return c, nil
}

func (r Req) bytes() []byte {
	if r.Raw != nil {
		return r.Raw
	}
	var b bytes.Buffer
	m := r.Method
	if m == "" {
		m = "GET"
	}
	p := r.Path
	if p == "" {
		p = "/"
	}
	fmt.Fprintf(&b, "%s %s HTTP/1.1\r\nHost: %s\r\n", m, p, r.Host)
	if r.ID != "" {
		fmt.Fprintf(&b, "X-V: %s\r\n", r.ID)
	}
	if r.Lat > 0 {
		fmt.Fprintf(&b, "X-Lat: %d\r\n", int64(r.Lat))
	}
	if r.Mode != "" {
		fmt.Fprintf(&b, "X-Mode: %s\r\n", r.Mode)
	}
	if r.Gap > 0 {
		fmt.Fprintf(&b, "X-Gap: %d\r\n", int64(r.Gap))
	}
	if r.Mode == "upgrade" || r.Mode == "upgrade-refused" {
		// "upgrade-refused": the client asks for an upgrade, the target answers as plain HTTP
		b.WriteString("Connection: Upgrade\r\nUpgrade: websocket\r\n")
	} else {
		b.WriteString("Connection: close\r\n")
	}
	for _, h := range r.Hdr {
		fmt.Fprintf(&b, "%s: %s\r\n", h[0], h[1])
	}
	if len(r.Body) > 0 || m == "POST" || m == "PUT" {
		fmt.Fprintf(&b, "Content-Length: %d\r\n", len(r.Body))
	}
	b.WriteString("\r\n")
	b.Write(r.Body)
	return b.Bytes()
}

// Do sends one request and waits for its complete response (or failure).
func (w *World) Do(r Req) *Resp { return w.doOn(w.ln, w.tlsLn, r) }

func (w *World) doOn(plain, tlsLn *memListener, r Req) *Resp {
	resp := &Resp{ID: r.ID, Sent: w.Now(), Status: -1}
	defer func() {
		w.mu.Lock()
		w.Resps = append(w.Resps, resp)
		w.mu.Unlock()
	}()
	c, err := w.connectOn(plain, tlsLn, r.TLS, r.SNI)
	if err != nil {
		resp.Err, resp.Done = err.Error(), w.Now()
		return resp
	}
	defer c.Close()
	raw := r.bytes()
	go func() { c.Write(raw) }()
	if r.AbortAfter > 0 {
		go func() {
			if w.sleep(r.AbortAfter) {
				c.Close()
			}
		}()
	}
	br := bufio.NewReader(c)
	hr, err := http.ReadResponse(br, &http.Request{Method: cmpOr(r.Method, "GET")})
	for err == nil && hr.StatusCode >= 100 && hr.StatusCode < 200 && hr.StatusCode != http.StatusSwitchingProtocols {
		resp.Informational = append(resp.Informational, hr.StatusCode)
		hr, err = http.ReadResponse(br, &http.Request{Method: cmpOr(r.Method, "GET")})
	}
	if err != nil {
		resp.Err, resp.Done = err.Error(), w.Now()
		return resp
	}
	resp.Status = hr.StatusCode
	resp.Header = hr.Header
	resp.Target = hr.Header.Get("X-Target")
	if hr.StatusCode == http.StatusSwitchingProtocols {
		resp.Upgraded = true
		resp.Done = w.Now()
		// one echo round trip, then wait for the proxy (or the world) to close us
		go func() { c.Write([]byte("ping")) }()
		buf := make([]byte, 4)
		if _, err := io.ReadFull(br, buf); err == nil && string(buf) == "ping" {
			resp.Echo = true
			one := make([]byte, 1)
			br.Read(one)
		}
		resp.ClosedAt = w.Now()
		return resp
	}
	body, err := io.ReadAll(hr.Body)
	resp.Body, resp.BodyLen = body, len(body)
	if err != nil {
		resp.Err = err.Error()
	}
	resp.Done = w.Now()
	return resp
}

func cmpOr(a, b string) string {
	if a != "" {
		return a
	}
	return b
}

// GoReq schedules a request at an absolute virtual offset.
func (w *World) GoReq(at time.Duration, r Req) {
	w.At(at, func() { w.Do(r) })
}

func (w *World) RespLog() []Resp {
	w.mu.Lock()
	defer w.mu.Unlock()
	out := make([]Resp, len(w.Resps))
	for i, p := range w.Resps {
		out[i] = *p
	}
	sort.SliceStable(out, func(i, j int) bool { return out[i].Sent < out[j].Sent })
	return out
}

// ---------- commands ----------

// Cmd runs an operator command, recording issue/return instants; a panic in the
// command (fatal to the real process) is captured and reported in the record.
func (w *World) Cmd(name, args string, f func() error) *CmdRec {
	rec := &CmdRec{Name: name, Args: args, Issue: w.Now()}
	w.mu.Lock()
	w.Cmds = append(w.Cmds, rec)
	w.mu.Unlock()
	// The command runs in its own goroutine so that one that never returns (every command of the
	// proxy is bounded by its timeouts: at most deploy timeout + drain timeout, a minute or so in
	// these scenarios) does not hang the scenario: after three hours of virtual time it is recorded
	// as such - monitors treat the text in Panic as a failure of the command - and the scenario
	// goes on. The goroutine left behind makes the bubble panic at its end, which the driver reports too.
	type outcome struct{ err, pan string }
	done := make(chan outcome, 1)
	go func() {
		var o outcome
		defer func() {
			if p := recover(); p != nil {
				o.pan = fmt.Sprint(p)
			}
			done <- o
		}()
		if err := f(); err != nil {
			o.err = err.Error()
		}
	}()
	tm := time.NewTimer(3 * time.Hour)
	defer tm.Stop()
	select {
	case o := <-done:
		rec.Err, rec.Panic = o.err, o.pan
	case <-tm.C:
		rec.Panic = "the command never returned (still running after 3h of virtual time)"
	}
	w.mu.Lock()
	rec.Ret, rec.Done = w.Now(), true
	w.mu.Unlock()
	return rec
}

var (
	DefSO = server.ServiceOptions{TLSRedirect: true}
	DefTO = server.TargetOptions{HealthCheckConfig: server.HealthCheckConfig{Path: "/up", Interval: time.Second, Timeout: 5 * time.Second}, ResponseTimeout: 30 * time.Second}
)

func (w *World) Deploy(name string, targets []string, so server.ServiceOptions, to server.TargetOptions, deployTO, drainTO time.Duration) *CmdRec {
	return w.Cmd("deploy", fmt.Sprintf("%s %v hosts=%v paths=%v", name, targets, so.Hosts, so.PathPrefixes), func() error {
		return w.Router.DeployService(name, targets, so, to, deployTO, drainTO)
	})
}

func (w *World) RolloutDeploy(name string, targets []string, deployTO, drainTO time.Duration) *CmdRec {
	return w.Cmd("rollout-deploy", fmt.Sprintf("%s %v", name, targets), func() error {
		return w.Router.SetRolloutTargets(name, targets, deployTO, drainTO)
	})
}

func (w *World) Pause(name string, drainTO, maxPause time.Duration) *CmdRec {
	return w.Cmd("pause", fmt.Sprintf("%s drain=%v max=%v", name, drainTO, maxPause), func() error {
		return w.Router.PauseService(name, drainTO, maxPause)
	})
}

func (w *World) Stop(name string, drainTO time.Duration, msg string) *CmdRec {
	return w.Cmd("stop", fmt.Sprintf("%s drain=%v msg=%q", name, drainTO, msg), func() error {
		return w.Router.StopService(name, drainTO, msg)
	})
}

func (w *World) Resume(name string) *CmdRec {
	return w.Cmd("resume", name, func() error { return w.Router.ResumeService(name) })
}

func (w *World) Remove(name string) *CmdRec {
	return w.Cmd("remove", name, func() error { return w.Router.RemoveService(name) })
}

func (w *World) RolloutSet(name string, pct int, allow []string) *CmdRec {
	return w.Cmd("rollout-set", fmt.Sprintf("%s %d %v", name, pct, allow), func() error { return w.Router.SetRolloutSplit(name, pct, allow) })
}

func (w *World) RolloutStop(name string) *CmdRec {
	return w.Cmd("rollout-stop", name, func() error { return w.Router.StopRollout(name) })
}

// ---------- shutdown ----------

// Close removes every service (stopping its probes), ends the world and closes
// every connection so that the bubble can drain.
func (w *World) Close() {
	w.ClearDelays()
	w.mu.Lock()
	w.OnHook = nil
	w.mu.Unlock()
	func() {
		defer func() { recover() }()
		for name := range w.Router.ListActiveServices() {
			func() {
				defer func() { recover() }()
				w.Router.ResumeService(name)
				w.Router.RemoveService(name)
			}()
		}
	}()
	close(w.done)
	time.Sleep(10 * time.Millisecond)
	if w.HS != nil {
		w.HS.Close()
	}
	for _, p := range w.extra {
		func() {
			defer func() { recover() }()
			for name := range p.Router.ListActiveServices() {
				func() {
					defer func() { recover() }()
					p.Router.ResumeService(name)
					p.Router.RemoveService(name)
				}()
			}
		}()
		p.HS.Close()
	}
	w.mu.Lock()
	conns := w.conns
	w.mu.Unlock()
	for _, c := range conns {
		c.Close()
	}
	w.probeTr.CloseIdleConnections()
	time.Sleep(10 * time.Millisecond)
	// Reaper: a health-check loop that the proxy failed to stop (a leak that the C06/C17
	// monitors report from the probe logs) would tick forever and keep the bubble alive.
	// Its next completed probe ends the goroutine instead.
	reaper := func(point string, args ...any) {
		if point == "target.health.recorded" {
			runtime.Goexit()
		}
	}
	server.VerifHook.Store(&reaper)
	// also outlast every max-pause timer of requests still held by a service that was removed
	// while paused (the bubble must be empty when the scenario returns; time stops advancing then)
	time.Sleep(3 * time.Hour)
	server.VerifHook.Store(nil)
	server.VerifDial.Store(nil)
	// http.DefaultClient / http.DefaultTransport are deliberately not restored here: goroutines of the
	// code under test may still read them until the bubble has drained; the next world replaces them
	slog.SetDefault(w.prevLog)
}

// CopyState copies the state file as it is on disk now into a fresh directory
// (usable as WorldOpt.StateDir of a later world) and returns that directory.
func (w *World) CopyState() string {
	dir := w.T.TempDir()
	b, err := os.ReadFile(w.StatePath)
	if err == nil {
		os.WriteFile(filepath.Join(dir, "kamal-proxy.state"), b, 0o644)
	}
	return dir
}

// CopyStateOf copies the given state file into a fresh directory and returns the directory.
func (w *World) CopyStateOf(statePath string) string {
	dir := w.T.TempDir()
	if b, err := os.ReadFile(statePath); err == nil {
		os.WriteFile(filepath.Join(dir, "kamal-proxy.state"), b, 0o644)
	}
	return dir
}

// Trace renders the merged event log (hooks, commands, targets, clients) for replay files.
func (w *World) Trace(limit int) []string {
	type ev struct {
		at time.Duration
		s  string
	}
	var evs []ev
	w.mu.Lock()
	for _, h := range w.Hooks {
		evs = append(evs, ev{h.At, fmt.Sprintf("hook %s req=%s name=%s %s", h.Point, h.Req, h.Name, h.Extra)})
	}
	for _, c := range w.Cmds {
		evs = append(evs, ev{c.Issue, fmt.Sprintf("cmd %s %s issued", c.Name, c.Args)})
		if c.Done {
			evs = append(evs, ev{c.Ret, fmt.Sprintf("cmd %s returned err=%q panic=%q", c.Name, c.Err, c.Panic)})
		}
	}
	for _, r := range w.Resps {
		evs = append(evs, ev{r.Sent, fmt.Sprintf("client %s sent", r.ID)})
		evs = append(evs, ev{r.Done, fmt.Sprintf("client %s -> %d target=%s err=%q", r.ID, r.Status, r.Target, r.Err)})
	}
	tgts := make([]*FakeTarget, 0, len(w.Targets))
	for _, t := range w.Targets {
		tgts = append(tgts, t)
	}
	w.mu.Unlock()
	for _, t := range tgts {
		for _, p := range t.ProbeLog() {
			evs = append(evs, ev{p.Start, fmt.Sprintf("target %s probe#%d start", t.Name, p.N)})
			if p.Ended {
				evs = append(evs, ev{p.End, fmt.Sprintf("target %s probe#%d end status=%d accepted=%v", t.Name, p.N, p.Status, p.Accepted)})
			}
		}
		for _, q := range t.ReqLog() {
			evs = append(evs, ev{q.Recv, fmt.Sprintf("target %s req %s recv", t.Name, q.ID)})
			if q.Outcome != "open" {
				evs = append(evs, ev{q.End, fmt.Sprintf("target %s req %s %s", t.Name, q.ID, q.Outcome)})
			}
		}
	}
	sort.SliceStable(evs, func(i, j int) bool { return evs[i].at < evs[j].at })
	out := make([]string, 0, len(evs))
	for _, e := range evs {
		out = append(out, fmt.Sprintf("%12.6fs %s", e.at.Seconds(), e.s))
	}
	if limit > 0 && len(out) > limit {
		out = append(out[:limit/2], append([]string{"..."}, out[len(out)-limit/2:]...)...)
	}
	return out
}
