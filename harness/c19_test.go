package verifharness

// C19 Each request yields one access-log record that matches what happened.

import (
	"bufio"
	"encoding/json"
	"fmt"
	"io"
	"math/rand/v2"
	"net"
	"net/http"
	"strings"
	"testing"
	"testing/synctest"
	"time"

	"github.com/basecamp/kamal-proxy/internal/server"
)

type c19Req struct {
	ID     string `json:"id"`
	Ending string `json:"ending"`
	Method string `json:"method"`
	Host   string `json:"host"`
	Path   string `json:"path"`
	Query  string `json:"query"`
	Size   int    `json:"resp_size"`
	Body   int    `json:"req_body"`
	TLS    bool   `json:"tls"`
	Multi  int    `json:"x_multi_values"`
	UA     string `json:"ua"`
	// responses that fail after they have begun (endings "cut-length", "cut-chunked", "abort-download-at")
	CutStatus  int  `json:"cut_status,omitempty"`       // status the target answers with before it fails
	Announced  int  `json:"cut_announced,omitempty"`    // Content-Length the target announces (cut-length)
	Sent       int  `json:"cut_sent,omitempty"`         // body bytes the target really sends before it drops the connection
	CutDelayMS int  `json:"cut_delay_ms,omitempty"`     // how long the target sits on the half-sent response before dropping it
	InChunk    bool `json:"cut_in_chunk,omitempty"`     // cut-chunked: the stream breaks inside a chunk (else between chunks)
	SSE        bool `json:"cut_event_stream,omitempty"` // the response is a text/event-stream (relayed without delay)
	ReadBytes  int  `json:"client_reads,omitempty"`     // abort-download-at: body bytes the client takes before it walks away
}

type c19Scenario struct {
	Idx     int      `json:"idx"`
	LogReq  []string `json:"log_request_headers"`
	LogResp []string `json:"log_response_headers"`
	Reqs    []c19Req `json:"reqs"`
}

var c19Endings = []string{"served", "served", "served", "served-hints", "served-head", "served-buffered", "404", "redirect", "tls-503", "paused-504", "stopped-503", "bounced-503", "bounced-504", "bounced-200",
	"target-502", "target-504", "target-truncated", "413", "500-overflow", "abort-waiting", "abort-waiting-buffered", "abort-held", "abort-download", "abort-upload", "upgrade",
	// responses that fail after they have begun: the target drops the connection in the middle of a body it
	// announced (or of a chunked stream), on a plain and on a response-buffering service; the client leaves at
	// some point of a download
	"cut-length", "cut-length", "cut-chunked", "abort-download-at"}

func c19Gen(rng *rand.Rand, idx int) c19Scenario {
	sc := c19Scenario{Idx: idx}
	switch rng.IntN(4) {
	case 0:
	case 1:
		sc.LogReq, sc.LogResp = []string{"X-Multi"}, []string{"X-Target"}
	case 2:
		sc.LogReq, sc.LogResp = []string{"x-multi", "User-Agent", "X-Absent"}, []string{"x-target", "Content-Length", "X-Absent-Resp"}
	default:
		sc.LogReq, sc.LogResp = []string{"X-mUlTi", "user-agent", "Cookie", "X-V"}, []string{"X-Echo-Len"}
	}
	n := 24 + rng.IntN(34)
	for i := 0; i < n; i++ {
		r := c19Req{ID: fmt.Sprintf("rid-%d-%d", idx, i), Ending: pick(rng, c19Endings), Method: "GET", Path: pick(rng, []string{"/", "/a/b", "/app/x.y", "/q"}),
			Query: pick(rng, []string{"", "a=1", "x=%20y&z", "u=a;b"}), Multi: rng.IntN(3), UA: pick(rng, []string{"", "agent/1.0"})}
		r.Size = pick(rng, []int{0, 1, 13, 1000, 5000, 70000, 1 << 20})
		switch r.Ending {
		case "served":
			r.Host = "plain.example"
			r.Method = pick(rng, []string{"GET", "POST", "PUT", "DELETE"})
			if r.Method != "GET" {
				r.Body = pick(rng, []int{0, 10, 5000})
			}
		case "served-hints":
			r.Host = "plain.example"
		case "served-head":
			r.Host, r.Method = "plain.example", "HEAD"
		case "served-buffered":
			r.Host, r.Method, r.Body = "bufok.example", "POST", pick(rng, []int{0, 100, 5000})
			r.Size = pick(rng, []int{0, 13, 1000, 70000})
		case "404":
			r.Host = "nobody.example"
		case "redirect":
			r.Host = "tls.example"
		case "tls-503":
			r.Host, r.TLS = "plain.example", true
		case "paused-504":
			r.Host = "pz.example"
		case "stopped-503":
			r.Host = "st.example"
		case "abort-held":
			// held by a pause; the client gives up while it is held; the service is resumed later
			r.Host = "bn.example"
		case "bounced-200":
			// passes the gate of a running service; a pause begins and its drain is still waiting for
			// a slower request when this one tries to claim a target: it is turned away, goes back to
			// the gate, is held, and is forwarded after resume (200 from the target)
			r.Host = "bn.example"
		case "bounced-503", "bounced-504":
			// passes the gate of a running service; stop (pause) takes effect before its claim is
			// admitted, so it goes back to the gate and is answered by the proxy without ever
			// reaching a target
			r.Host = "bn.example"
		case "target-502", "target-504", "target-truncated":
			r.Host, r.Method, r.Body = "flt.example", "POST", 5
		case "413":
			r.Host, r.Method, r.Body = "buf.example", "POST", 3000
		case "500-overflow":
			r.Host, r.Size = "buf.example", 3000
		case "abort-waiting-buffered":
			r.Host = "bufok.example" // the same on a service that buffers requests and responses
		case "abort-waiting", "abort-download":
			r.Host = "plain.example"
			if r.Ending == "abort-download" {
				r.Size = 1 << 20
			}
		case "abort-upload":
			r.Host, r.Method, r.Body = "plain.example", "POST", 100000
		case "upgrade":
			r.Host = "plain.example"
		case "cut-length", "cut-chunked":
			r.Host = pick(rng, []string{"cut.example", "cut.example", "cutbuf.example"})
			r.Method = pick(rng, []string{"GET", "GET", "POST"})
			if r.Method == "POST" {
				r.Body = pick(rng, []int{0, 10, 5000})
			}
			r.CutStatus = pick(rng, []int{200, 200, 200, 201, 206, 404, 503})
			r.Sent = pick(rng, []int{0, 1, 11, 3000, 5000, 70000, 300000})
			r.CutDelayMS = pick(rng, []int{0, 0, 40, 3000})
			r.SSE = rng.IntN(4) == 0
			r.Size = -1
			if r.Ending == "cut-length" {
				r.Announced = r.Sent + pick(rng, []int{1, 89, 5000, 700000})
			} else {
				r.Announced = -1
				r.InChunk = rng.IntN(2) == 0
			}
		case "abort-download-at":
			r.Host = "plain.example"
			r.Size = pick(rng, []int{70000, 300000, 1 << 20})
			r.ReadBytes = pick(rng, []int{0, 1, 1000, 20000, 60000})
		}
		sc.Reqs = append(sc.Reqs, r)
	}
	return sc
}

// c19CutHandler: a target that begins a response and then fails. A request carrying
// "X-Cut: status/announced/sent/delay-ms/in-chunk/sse" is answered with that status and either an
// announced Content-Length (announced >= 0) or a chunked stream, "sent" bytes of body, and then, after
// the delay, a dropped connection. Anything else is answered like every fake target answers.
func c19CutHandler(w *World) func(ft *FakeTarget, c net.Conn, br *bufio.Reader, req *http.Request, body []byte) bool {
	return func(ft *FakeTarget, c net.Conn, br *bufio.Reader, req *http.Request, body []byte) bool {
		spec := req.Header.Get("X-Cut")
		if spec == "" {
			return ft.defaultHandle(c, br, req, body)
		}
		rec := ft.newReq(req, body)
		var status, announced, sent, delayMS, inChunk, sse int
		fmt.Sscanf(spec, "%d/%d/%d/%d/%d/%d", &status, &announced, &sent, &delayMS, &inChunk, &sse)
		if !w.sleep(OffTarget) {
			return false
		}
		var b strings.Builder
		fmt.Fprintf(&b, "HTTP/1.1 %d %s\r\nX-Target: %s\r\n", status, http.StatusText(status), ft.Name)
		if sse == 1 {
			b.WriteString("Content-Type: text/event-stream\r\n")
		} else {
			b.WriteString("Content-Type: text/plain\r\n")
		}
		if announced >= 0 {
			fmt.Fprintf(&b, "Content-Length: %d\r\n\r\n", announced)
			b.WriteString(strings.Repeat("x", sent))
		} else {
			b.WriteString("Transfer-Encoding: chunked\r\n\r\n")
			for left := sent; left > 0; {
				n := min(left, 1000)
				left -= n
				if left == 0 && inChunk == 1 {
					fmt.Fprintf(&b, "%x\r\n%s", n+50, strings.Repeat("x", n)) // 50 bytes of this chunk never come
					break
				}
				fmt.Fprintf(&b, "%x\r\n%s\r\n", n, strings.Repeat("x", n))
			}
			if sent == 0 && inChunk == 1 {
				b.WriteString("32\r\n")
			}
		}
		if _, err := c.Write([]byte(b.String())); err != nil {
			ft.end(rec, "writeerr")
			return false
		}
		w.sleep(time.Duration(delayMS) * time.Millisecond)
		ft.end(rec, "cut")
		return false
	}
}

func TestC19(t *testing.T) {
	run := NewRun(t, "C19")
	defer run.Finish()
	n := run.N(48, 1600)
	for i := 0; i < n; i++ {
		sc := c19Gen(run.Rand(i), i)
		if !run.Mine(i, map[string]any{"idx": i, "requests": len(sc.Reqs), "log_req": sc.LogReq, "log_resp": sc.LogResp}) {
			continue
		}
		synctest.Test(t, func(t *testing.T) { c19Run(t, run, sc) })
	}
}

func c19Run(t *testing.T, run *Run, sc c19Scenario) {
	w := NewWorld(t, WorldOpt{TLSListener: true})
	defer func() { w.Close() }()
	w.MaxClientLife = 10 * time.Minute
	run.Eval()
	fix := Fixtures()
	dep := func(name, target string, so server.ServiceOptions, mod func(*server.TargetOptions)) bool {
		to := DefTO
		to.LogRequestHeaders = append([]string(nil), sc.LogReq...)
		to.LogResponseHeaders = append([]string(nil), sc.LogResp...)
		to.ResponseTimeout = 2 * time.Second
		if mod != nil {
			mod(&to)
		}
		if w.Target(target) == nil {
			w.AddTarget(target, nil)
		}
		if strings.HasPrefix(target, "cut") {
			w.Target(target).Handler = c19CutHandler(w)
		}
		if c := w.Deploy(name, []string{target}, so, to, 5*time.Second, time.Second); c.Err != "" {
			run.Inconclusive("setup %s: %s", name, c.Err)
			return false
		}
		return true
	}
	flt := w.AddTarget("flt:80", nil)
	flt.RawServe = c15Serve(w)
	ok := dep("plain", "plain-t:80", server.ServiceOptions{Hosts: []string{"plain.example"}}, nil) &&
		dep("tlsredir", "tls-t:80", server.ServiceOptions{Hosts: []string{"tls.example"}, TLSEnabled: true, TLSRedirect: true, TLSCertificatePath: fix + "/cert.pem", TLSPrivateKeyPath: fix + "/key.pem"}, nil) &&
		dep("buf", "buf-t:80", server.ServiceOptions{Hosts: []string{"buf.example"}}, func(to *server.TargetOptions) {
			to.BufferRequests, to.BufferResponses, to.MaxRequestBodySize, to.MaxResponseBodySize, to.MaxMemoryBufferSize = true, true, 1000, 1000, 100
		}) &&
		dep("bufok", "bufok-t:80", server.ServiceOptions{Hosts: []string{"bufok.example"}}, func(to *server.TargetOptions) {
			to.BufferRequests, to.BufferResponses, to.MaxMemoryBufferSize = true, true, 1000
		}) &&
		dep("pz", "pz-t:80", server.ServiceOptions{Hosts: []string{"pz.example"}}, nil) &&
		dep("st", "st-t:80", server.ServiceOptions{Hosts: []string{"st.example"}}, nil) &&
		dep("bn", "bn-t:80", server.ServiceOptions{Hosts: []string{"bn.example"}}, nil) &&
		dep("flt", "flt:80", server.ServiceOptions{Hosts: []string{"flt.example"}}, nil) &&
		// targets that begin a response and then drop the connection; the second service buffers responses
		dep("cut", "cut-t:80", server.ServiceOptions{Hosts: []string{"cut.example"}}, nil) &&
		dep("cutbuf", "cutbuf-t:80", server.ServiceOptions{Hosts: []string{"cutbuf.example"}}, func(to *server.TargetOptions) {
			to.BufferRequests, to.BufferResponses, to.MaxMemoryBufferSize = true, true, 1000
		}) &&
		// services below a stripped path prefix on the same hosts: "/app/x.y" is theirs, and the record
		// names the path the client asked for
		dep("plainapp", "plainapp-t:80", server.ServiceOptions{Hosts: []string{"plain.example"}, PathPrefixes: []string{"/app"}, StripPrefix: true}, nil) &&
		dep("pzapp", "pzapp-t:80", server.ServiceOptions{Hosts: []string{"pz.example"}, PathPrefixes: []string{"/app"}, StripPrefix: true}, nil) &&
		dep("stapp", "stapp-t:80", server.ServiceOptions{Hosts: []string{"st.example"}, PathPrefixes: []string{"/app"}, StripPrefix: true}, nil) &&
		dep("bnapp", "bnapp-t:80", server.ServiceOptions{Hosts: []string{"bn.example"}, PathPrefixes: []string{"/app"}, StripPrefix: true}, nil)
	if !ok {
		return
	}
	w.Pause("pz", time.Second, 300*time.Millisecond)
	w.Stop("st", time.Second, "closed")
	w.Pause("pzapp", time.Second, 300*time.Millisecond)
	w.Stop("stapp", time.Second, "closed")
	if sc.Idx%3 == 2 {
		// the proxy is restarted before it serves anything: the records are written by a proxy
		// restored from the state file
		dir := w.CopyState()
		names := []string{}
		for _, ft := range w.Targets {
			names = append(names, ft.Name)
		}
		w.Close()
		w = NewWorld(t, WorldOpt{TLSListener: true, StateDir: dir})
		w.MaxClientLife = 10 * time.Minute
		for _, n := range names {
			if n != "flt:80" {
				w.AddTarget(n, nil)
			}
			if strings.HasPrefix(n, "cut") {
				w.Target(n).Handler = c19CutHandler(w)
			}
		}
		flt2 := w.AddTarget("flt:80", nil)
		flt2.RawServe = c15Serve(w)
		if err := w.Router.RestoreLastSavedState(); err != nil {
			run.Violate("restore-failed", fmt.Sprintf("RestoreLastSavedState: %v", err), sc, nil)
			return
		}
		run.Count("scenarios_served_by_a_restored_proxy", 1)
	}
	svcFor := func(host, path string) string {
		base := map[string]string{"plain.example": "plain", "pz.example": "pz", "st.example": "st", "bn.example": "bn"}[host]
		if base != "" && (path == "/app" || strings.HasPrefix(path, "/app/")) {
			return base + "app"
		}
		return ""
	}
	svcOf := map[string]string{"plain.example": "plain", "tls.example": "tlsredir", "buf.example": "buf", "bufok.example": "bufok", "pz.example": "pz", "st.example": "st", "flt.example": "flt", "bn.example": "bn", "cut.example": "cut", "cutbuf.example": "cutbuf"}
	type outcome struct {
		status   int
		bodyLen  int
		complete bool
		xtarget  string
	}
	outs := map[string]outcome{}
	for _, r := range sc.Reqs {
		var hdr [][2]string
		hdr = append(hdr, [2]string{"X-Request-Id", r.ID})
		for k := 0; k < r.Multi; k++ {
			hdr = append(hdr, [2]string{"X-Multi", fmt.Sprintf("m%d", k)})
		}
		if r.UA != "" {
			hdr = append(hdr, [2]string{"User-Agent", r.UA})
		}
		if r.Size >= 0 {
			hdr = append(hdr, [2]string{"X-Size", fmt.Sprint(r.Size)})
		}
		path := r.Path
		if r.Query != "" {
			path += "?" + r.Query
		}
		req := Req{ID: r.ID, Method: r.Method, Host: r.Host, Path: path, Hdr: hdr, Body: make([]byte, r.Body), TLS: r.TLS, SNI: "tls.example"}
		switch r.Ending {
		case "target-502":
			req.Hdr = append(req.Hdr, [2]string{"X-Fault", "close-at-once"})
		case "target-504":
			req.Hdr = append(req.Hdr, [2]string{"X-Fault", "silence"})
		case "target-truncated":
			req.Hdr = append(req.Hdr, [2]string{"X-Fault", "short-body"})
		case "served-hints":
			req.Mode = "hints"
		case "abort-waiting", "abort-waiting-buffered":
			req.Lat, req.AbortAfter = 5*time.Second, time.Second
		case "upgrade":
			req.Mode, req.AbortAfter = "upgrade", 2*time.Second
		case "cut-length", "cut-chunked":
			b2i := func(b bool) int {
				if b {
					return 1
				}
				return 0
			}
			req.Hdr = append(req.Hdr, [2]string{"X-Cut", fmt.Sprintf("%d/%d/%d/%d/%d/%d", r.CutStatus, r.Announced, r.Sent, r.CutDelayMS, b2i(r.InChunk), b2i(r.SSE))})
		}
		switch r.Ending {
		case "abort-download", "abort-upload", "abort-download-at":
			// raw client that walks away in the middle
			conn, err := w.connect(false, "")
			if err != nil {
				run.Inconclusive("connect: %v", err)
				return
			}
			raw := req.bytes()
			got := outcome{status: -1}
			if r.Ending == "abort-upload" {
				conn.Write(raw[:len(raw)-r.Body/2])
				time.Sleep(10 * time.Millisecond)
				conn.Close()
			} else {
				go conn.Write(raw)
				br := bufio.NewReader(conn)
				if m, err := readRawHead(br); err == nil && m.Status() == 200 {
					// the status line and the headers were received: that status was used for this request
					got.status = m.Status()
					if r.Ending == "abort-download-at" {
						n, _ := io.ReadFull(br, make([]byte, r.ReadBytes))
						got.bodyLen = n
					} else {
						buf := make([]byte, 1000)
						got.bodyLen, _ = br.Read(buf)
					}
				}
				conn.Close()
			}
			time.Sleep(100 * time.Millisecond)
			outs[r.ID] = got
		case "abort-held":
			hsvc := "bn"
			if sub := svcFor(r.Host, r.Path); sub != "" {
				hsvc = sub
			}
			w.Pause(hsvc, time.Second, 100*time.Second)
			req.AbortAfter = time.Second
			t0 := w.Now()
			w.At(t0+3*time.Second, func() { w.Resume(hsvc) })
			w.Do(req)
			outs[r.ID] = outcome{status: -1}
			w.Wait()
		case "bounced-200":
			w.SetReqDelay(r.ID, "service.gate.passed", 2*time.Second)
			t0 := w.Now()
			slowPath := "/slow"
			if svcFor(r.Host, r.Path) != "" {
				slowPath = "/app/slow"
			}
			w.GoReq(t0+OffArrival, Req{ID: r.ID + "-slow", Host: "bn.example", Path: slowPath, Lat: 3 * time.Second})
			bsvc := "bn"
			if sub := svcFor(r.Host, r.Path); sub != "" {
				bsvc = sub
			}
			w.At(t0+time.Second, func() { w.Pause(bsvc, 10*time.Second, 30*time.Second) })
			w.At(t0+4*time.Second, func() { w.Resume(bsvc) })
			resp := w.Do(req)
			outs[r.ID] = outcome{status: resp.Status, bodyLen: resp.BodyLen, complete: resp.Err == "" && resp.Status > 0, xtarget: resp.Target}
			w.Wait()
		case "bounced-503", "bounced-504":
			w.SetReqDelay(r.ID, "service.gate.passed", 2*time.Second)
			kind := r.Ending
			bsvc := "bn"
			if sub := svcFor(r.Host, r.Path); sub != "" {
				bsvc = sub
			}
			w.At(w.Now()+time.Second, func() {
				if kind == "bounced-503" {
					w.Stop(bsvc, time.Second, "closed")
				} else {
					w.Pause(bsvc, time.Second, 300*time.Millisecond)
				}
			})
			resp := w.Do(req)
			outs[r.ID] = outcome{status: resp.Status, bodyLen: resp.BodyLen, complete: resp.Err == "" && resp.Status > 0, xtarget: resp.Target}
			w.Wait()
			w.Resume(bsvc)
		default:
			resp := w.Do(req)
			outs[r.ID] = outcome{status: resp.Status, bodyLen: resp.BodyLen, complete: resp.Err == "" && resp.Status > 0, xtarget: resp.Target}
		}
	}
	time.Sleep(3 * time.Second)
	// ---- join on request_id ----
	recs := map[string][]map[string]any{}
	for _, line := range strings.Split(w.LogBuf.String(), "\n") {
		if !strings.Contains(line, `"msg":"Request"`) {
			continue
		}
		m := parseRecord(line)
		if m == nil {
			continue
		}
		id, _ := m["request_id"].(string)
		recs[id] = append(recs[id], m)
	}
	atTarget := map[string]string{}
	for _, ft := range w.Targets {
		for _, q := range ft.ReqLog() {
			atTarget[q.ID] = ft.Name
		}
	}
	str := func(m map[string]any, k string) string { s, _ := m[k].(string); return s }
	num := func(m map[string]any, k string) int { f, _ := m[k].(float64); return int(f) }
	for _, r := range sc.Reqs {
		fail := func(sig, format string, a ...any) {
			run.Violate(sig, fmt.Sprintf(format, a...), map[string]any{"request": r, "log_req": sc.LogReq, "log_resp": sc.LogResp}, recs[r.ID])
		}
		rs := recs[r.ID]
		if len(rs) != 1 {
			fail(fmt.Sprintf("record-count:%s:%d", r.Ending, len(rs)), "request %s (%s): %d access-log records", r.ID, r.Ending, len(rs))
			return
		}
		rec := rs[0]
		o := outs[r.ID]
		// fields that are known whatever happened
		if str(rec, "method") != r.Method || str(rec, "host") != r.Host || str(rec, "path") != r.Path || str(rec, "query") != r.Query {
			fail("request-fields:"+r.Ending, "request %s %s %s?%s on %s logged as method=%q host=%q path=%q query=%q", r.ID, r.Method, r.Path, r.Query, r.Host, str(rec, "method"), str(rec, "host"), str(rec, "path"), str(rec, "query"))
			return
		}
		wantSvc := svcOf[r.Host]
		if sub := svcFor(r.Host, r.Path); sub != "" {
			wantSvc = sub
			run.Count("requests_for_services_below_a_stripped_prefix", 1)
		}
		if str(rec, "service") != wantSvc {
			fail("service-field:"+r.Ending, "request %s for host %s logged service=%q, expected %q", r.ID, r.Host, str(rec, "service"), wantSvc)
			return
		}
		tgt := atTarget[r.ID]
		if r.Host == "flt.example" {
			tgt = "flt:80" // the raw fault target keeps no request log; every fault here happens after it was contacted
		}
		switch {
		case tgt != "":
			if str(rec, "target") != tgt {
				fail("target-field:"+r.Ending, "request %s was served by %s but the record says target=%q", r.ID, tgt, str(rec, "target"))
				return
			}
		case r.Ending == "413" || r.Ending == "target-502" || r.Ending == "target-504" || r.Ending == "abort-upload" || r.Ending == "abort-held":
			// claimed for a target that was never (successfully) contacted: empty or that target
			if t := str(rec, "target"); t != "" && !strings.HasPrefix(t, strings.TrimSuffix(wantSvc, "redir")) && t != "flt:80" {
				fail("target-field:"+r.Ending, "request %s reached no target but the record names %q", r.ID, t)
				return
			}
		default:
			if str(rec, "target") != "" {
				fail("target-field:"+r.Ending, "request %s reached no target but the record names %q", r.ID, str(rec, "target"))
				return
			}
		}
		switch r.Ending {
		case "abort-held":
			if num(rec, "status") != 499 {
				fail("abort-status:held", "client of %s went away while the request was held by a pause (the service was resumed two seconds later); record status=%d, expected 499", r.ID, num(rec, "status"))
				return
			}
		case "abort-waiting", "abort-waiting-buffered":
			if num(rec, "status") != 499 {
				fail("abort-status", "client of %s went away while the target was working; record status=%d, expected 499", r.ID, num(rec, "status"))
				return
			}
		case "abort-download", "abort-upload", "target-truncated", "cut-length", "cut-chunked", "abort-download-at":
			// A response that failed after it had begun. If nothing of it reached the client only "exactly
			// one record" is demanded. If the client was sent a status line, that status is the one that was
			// used for this request, and the record must not count fewer body bytes than the client took.
			delivered := o.status > 0
			if delivered {
				st := num(rec, "status")
				clientLeft := strings.HasPrefix(r.Ending, "abort-")
				if st != o.status && !(clientLeft && st == 499) {
					fail("status-field:"+r.Ending, "client of %s was sent status %d (and %d body bytes) before the response broke off; record says status=%d", r.ID, o.status, o.bodyLen, st)
					return
				}
				if r.Method != "HEAD" && num(rec, "resp_content_length") < o.bodyLen {
					fail("bytes-field:"+r.Ending, "client of %s received %d body bytes before the response broke off, record says resp_content_length=%d", r.ID, o.bodyLen, num(rec, "resp_content_length"))
					return
				}
				run.Count("broken_off_responses_whose_status_reached_the_client", 1)
			}
			if r.Ending == "cut-length" || r.Ending == "cut-chunked" {
				if delivered && o.status != r.CutStatus {
					fail("harness-expectation:"+r.Ending, "request %s (%s): client got status %d, the target answered %d", r.ID, r.Ending, o.status, r.CutStatus)
					return
				}
				sent := "0"
				switch {
				case r.Sent >= 4096:
					sent = "4k+"
				case r.Sent > 0:
					sent = "<4k"
				}
				run.Class(fmt.Sprintf("%s|status=%d|sent=%s|in_chunk=%v|event_stream=%v|delay_ms=%d|buffered=%v|status_reached_client=%v", r.Ending, r.CutStatus, sent, r.InChunk, r.SSE, r.CutDelayMS, r.Host == "cutbuf.example", delivered))
			}
			if r.Ending == "abort-download-at" {
				run.Class(fmt.Sprintf("%s|size=%d|client_reads=%d|status_reached_client=%v", r.Ending, r.Size, r.ReadBytes, delivered))
			}
		case "upgrade":
			if num(rec, "status") != 101 {
				fail("upgrade-status", "upgraded request %s logged with status %d", r.ID, num(rec, "status"))
				return
			}
		default:
			want := map[string]int{"served": 200, "served-hints": 200, "served-head": 200, "served-buffered": 200, "404": 404, "redirect": 301, "tls-503": 503, "paused-504": 504, "stopped-503": 503, "bounced-503": 503, "bounced-504": 504, "bounced-200": 200, "target-502": 502, "target-504": 504, "413": 413, "500-overflow": 500}[r.Ending]
			if o.status != want {
				fail("harness-expectation:"+r.Ending, "request %s (%s): client got status %d, scenario expected %d", r.ID, r.Ending, o.status, want)
				return
			}
			if num(rec, "status") != o.status {
				fail("status-field:"+r.Ending, "client of %s received %d, record says %d", r.ID, o.status, num(rec, "status"))
				return
			}
			if o.complete && num(rec, "resp_content_length") != o.bodyLen {
				fail("bytes-field:"+r.Ending, "client of %s received %d body bytes, record says resp_content_length=%d", r.ID, o.bodyLen, num(rec, "resp_content_length"))
				return
			}
		}
		// configured extra headers, for requests that were handed to a target
		if tgt != "" && (r.Ending == "served" || r.Ending == "served-hints" || r.Ending == "served-buffered" || r.Ending == "served-head") {
			for _, h := range sc.LogReq {
				key := "req_" + strings.ReplaceAll(strings.ToLower(h), "-", "_")
				want := ""
				switch strings.ToLower(h) {
				case "x-multi":
					var vs []string
					for k := 0; k < r.Multi; k++ {
						vs = append(vs, fmt.Sprintf("m%d", k))
					}
					want = strings.Join(vs, ",")
				case "user-agent":
					want = r.UA
				case "x-v":
					want = r.ID
				}
				got, present := rec["last:"+key]
				if !present || got != want {
					fail("logged-request-header:"+strings.ToLower(h), "request %s: configured request header %s logged as %v (present=%v), sent %q", r.ID, h, got, present, want)
					return
				}
			}
			for _, h := range sc.LogResp {
				key := "resp_" + strings.ReplaceAll(strings.ToLower(h), "-", "_")
				want := ""
				switch strings.ToLower(h) {
				case "x-target":
					want = tgt
				case "content-length":
					want = fmt.Sprint(r.Size)
				case "x-echo-len":
					want = fmt.Sprint(r.Body)
				}
				got, present := rec["last:"+key]
				if !present || got != want {
					fail("logged-response-header:"+strings.ToLower(h), "request %s: configured response header %s logged as %v (present=%v), target sent %q", r.ID, h, got, present, want)
					return
				}
			}
		}
		run.Count("records_checked", 1)
		run.Class(fmt.Sprintf("%s|%s|size=%d|hdrs=%d", r.Ending, r.Method, min(r.Size, 70000), len(sc.LogReq)))
	}
	run.Sample(map[string]any{"requests": len(sc.Reqs), "log_req": sc.LogReq, "log_resp": sc.LogResp, "first": sc.Reqs[0]})
}

// parseRecord decodes one JSON log record keeping both values when a key occurs twice (a
// configured header such as Content-Length maps to the same key as a built-in field): the first
// occurrence stays under the key (built-in fields come first), the last one is stored under
// "last:"+key, which is where configured header fields are looked up.
func parseRecord(line string) map[string]any {
	dec := json.NewDecoder(strings.NewReader(line))
	if tok, err := dec.Token(); err != nil || tok != json.Delim('{') {
		return nil
	}
	m := map[string]any{}
	for dec.More() {
		kt, err := dec.Token()
		if err != nil {
			return nil
		}
		k, _ := kt.(string)
		var v any
		if err := dec.Decode(&v); err != nil {
			return nil
		}
		if _, dup := m[k]; !dup {
			m[k] = v
		}
		m["last:"+k] = v
	}
	return m
}
