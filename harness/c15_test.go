package verifharness

// C15 Target failures become well-formed 502/504 responses, never hangs; later failures are
// visibly cut short; a failed request leaves nothing behind.

import (
	"bufio"
	"fmt"
	"math/rand/v2"
	"net"
	"net/http"
	"net/http/httptest"
	"os"
	"strconv"
	"strings"
	"sync"
	"testing"
	"testing/synctest"
	"time"

	"github.com/basecamp/kamal-proxy/internal/server"
)

const c15Timeout = 2 * time.Second

type c15Fault struct {
	Kind string        `json:"kind"`
	D    time.Duration `json:"d,omitempty"`
	// Hints: the target sends a 103 Early Hints (an informational response, relayed to the client)
	// before it fails
	Hints bool `json:"early_hints_first,omitempty"`
}

type c15Scenario struct {
	Idx     int        `json:"idx"`
	BufReq  bool       `json:"buffer_requests"`
	BufResp bool       `json:"buffer_responses"`
	Pages   string     `json:"pages"`
	Faults  []c15Fault `json:"faults"`
}

var c15Early = []string{"refused", "close-at-once", "partial-status-line", "garbage", "cut-headers", "cut-after-status-line", "cut-between-headers", "silence", "stall-headers", "late-answer"}
var c15Late = []string{"short-body", "cut-in-chunk", "cut-between-chunks"}

func c15Gen(rng *rand.Rand, idx int) c15Scenario {
	sc := c15Scenario{Idx: idx, BufReq: rng.IntN(2) == 0, BufResp: rng.IntN(2) == 0, Pages: pick(rng, []string{"", "pages502", "pages504", "pagesboth"})}
	n := 1 + rng.IntN(6)
	for i := 0; i < n; i++ {
		f := c15Fault{Kind: pick(rng, append(append([]string{}, c15Early...), c15Late...))}
		switch f.Kind {
		case "late-answer":
			f.D = c15Timeout + pick(rng, []time.Duration{-300 * time.Millisecond, -300 * time.Millisecond, 300 * time.Millisecond, 300 * time.Millisecond, -Step, 0, Step})
		case "stall-headers":
			f.D = pick(rng, []time.Duration{c15Timeout + 300*time.Millisecond, 1000 * time.Hour})
		case "close-at-once", "partial-status-line", "garbage", "cut-headers", "cut-after-status-line", "cut-between-headers":
			f.D = pick(rng, []time.Duration{0, 0, 200*time.Millisecond + OffTarget, time.Second + OffTarget})
		}
		f.Hints = f.Kind != "refused" && rng.IntN(4) == 0
		sc.Faults = append(sc.Faults, f)
	}
	return sc
}

func TestC15(t *testing.T) {
	run := NewRun(t, "C15")
	defer run.Finish()
	n := run.N(600, 12000)
	burstOnly := os.Getenv("VERIF_C15_ONLY") == "burst" // the pass under the race detector
	for i := 0; i < n; i++ {
		sc := c15Gen(run.Rand(i), i)
		if burstOnly || !run.Mine(i, sc) {
			continue
		}
		synctest.Test(t, func(t *testing.T) { c15Run(t, run, sc) })
	}
	if desc := map[string]any{"kind": "real-listener-silent-target"}; !burstOnly && run.Mine(n+1000, desc) {
		c15Live(t, run, desc)
	}
	for k := 0; k < run.N(3, 48); k++ {
		desc := map[string]any{"idx": k, "kind": "many-requests-at-a-silent-target"}
		if !run.Mine(n+k, desc) {
			continue
		}
		synctest.Test(t, func(t *testing.T) { c15Burst(t, run, k, run.Rand(n+k)) })
	}
}

// c15Live: the same through the proxy's real listener (real sockets, real time; the virtual-time
// worlds serve the proxy's handler from their own http.Server, so nothing that is configured on the
// real listeners is in their picture). One request at a target that stays silent, with a target
// timeout of 33 seconds: the client is owed a well-formed 504 then, not a dropped connection.
func c15Live(t *testing.T, run *Run, desc any) {
	run.Eval()
	RestoreHTTPDefaults()
	dir, err := os.MkdirTemp("", "vh-c15-")
	if err != nil {
		run.Inconclusive("tempdir: %v", err)
		return
	}
	defer os.RemoveAll(dir)
	os.Setenv("XDG_RUNTIME_DIR", dir)
	release := make(chan struct{})
	tgt := httptest.NewServer(http.HandlerFunc(func(w http.ResponseWriter, r *http.Request) {
		if r.URL.Path == "/up" {
			w.WriteHeader(200)
			return
		}
		select { // silent
		case <-release:
		case <-r.Context().Done():
		}
	}))
	defer func() { close(release); tgt.CloseClientConnections(); tgt.Close() }()
	cfg := &server.Config{Bind: "127.0.0.1", HttpPort: 0, HttpsPort: 0, AlternateConfigDir: dir}
	router := server.NewRouter(cfg.StatePath())
	srv := server.NewServer(cfg, router)
	if err := srv.Start(); err != nil {
		run.Inconclusive("server start: %v", err)
		return
	}
	defer srv.Stop()
	const timeout = 33 * time.Second
	to := server.TargetOptions{HealthCheckConfig: server.HealthCheckConfig{Path: "/up", Interval: time.Second, Timeout: time.Second}, ResponseTimeout: timeout}
	if err := router.DeployService("quiet", []string{strings.TrimPrefix(tgt.URL, "http://")}, server.ServiceOptions{Hosts: []string{"quiet.example"}}, to, 5*time.Second, time.Second); err != nil {
		run.Inconclusive("deploy: %v", err)
		return
	}
	conn, err := net.DialTimeout("tcp", fmt.Sprintf("127.0.0.1:%d", srv.HttpPort()), 5*time.Second)
	if err != nil {
		run.Inconclusive("dial: %v", err)
		return
	}
	defer conn.Close()
	conn.SetDeadline(time.Now().Add(timeout + 60*time.Second))
	t0 := time.Now()
	fmt.Fprintf(conn, "GET /quiet HTTP/1.1\r\nHost: quiet.example\r\n\r\n")
	m, rerr := readRawResponse(bufio.NewReader(conn), "GET")
	took := time.Since(t0)
	if rerr != nil || m == nil {
		run.Violate("live:no-wellformed-response", fmt.Sprintf("real listener, silent target, target timeout %v: after %v the client got no parsable response (%v) instead of a 504", timeout, took.Round(100*time.Millisecond), rerr), desc, nil)
		return
	}
	if m.Status() != 504 || !strings.Contains(string(m.Body), "504") {
		run.Violate("live:wrong-response", fmt.Sprintf("real listener, silent target, target timeout %v: status %d after %v, body %q", timeout, m.Status(), took.Round(100*time.Millisecond), trunc(string(m.Body), 80)), desc, nil)
		return
	}
	if took < timeout-2*time.Second {
		run.Violate("live:too-early", fmt.Sprintf("504 after %v with a target timeout of %v", took, timeout), desc, nil)
		return
	}
	if took > timeout+20*time.Second {
		run.Inconclusive("live 504 after %v (target timeout %v): machine too loaded to judge promptness", took, timeout)
		return
	}
	run.Class("live|silent-target|504")
}

// c15Burst: "promptly ... never hangs" under load: many requests are in flight at one target that
// accepts them and stays silent. Each of them is owed its 504 at its own arrival + target timeout,
// however many others are waiting, and a healthy request afterwards is served.
func c15Burst(t *testing.T, run *Run, idx int, rng *rand.Rand) {
	w := NewWorld(t, WorldOpt{})
	defer w.Close()
	w.MaxClientLife = 10 * time.Minute
	run.Eval()
	nreq := pick(rng, []int{130, 160, 260})
	ft := w.AddTarget("flt:80", nil)
	ft.RawServe = c15Serve(w)
	to := DefTO
	to.ResponseTimeout = c15Timeout
	to.BufferRequests = rng.IntN(3) == 0
	if c := w.Deploy("svc", []string{"flt:80"}, server.ServiceOptions{TLSRedirect: true}, to, 5*time.Second, time.Second); c.Err != "" {
		run.Inconclusive("setup: %s", c.Err)
		return
	}
	type res struct {
		status     int
		body       string
		sent, done time.Duration
		err        error
	}
	out := make([]res, nreq)
	// while those time out, other requests fail at once at a target that refuses: every client gets
	// the page of its own status, whatever else is being rendered at the same moment
	ft2 := w.AddTarget("refuser:80", nil)
	ft2.RefuseProxy = true
	if c := w.Deploy("svc2", []string{"refuser:80"}, server.ServiceOptions{TLSRedirect: true, Hosts: []string{"refused.example"}}, to, 5*time.Second, time.Second); c.Err != "" {
		run.Inconclusive("setup: %s", c.Err)
		return
	}
	mixed := make([]res, 40)
	var wg2 sync.WaitGroup
	for i := range mixed {
		i := i
		wg2.Add(1)
		go func() {
			defer wg2.Done()
			time.Sleep(time.Second + c15Timeout + time.Duration(i%10)*10*time.Millisecond + OffArrival - time.Millisecond)
			r := w.Do(Req{ID: fmt.Sprintf("m%d", i), Host: "refused.example", Path: "/f"})
			mixed[i] = res{status: r.Status, body: string(r.Body)}
		}()
	}
	defer wg2.Wait()
	var wg sync.WaitGroup
	for i := 0; i < nreq; i++ {
		i := i
		wg.Add(1)
		go func() {
			defer wg.Done()
			time.Sleep(time.Second + time.Duration(i%10)*10*time.Millisecond + OffArrival)
			conn, err := w.connect(false, "")
			if err != nil {
				out[i].err = err
				return
			}
			defer conn.Close()
			out[i].sent = w.Now()
			go fmt.Fprintf(conn, "GET /f HTTP/1.1\r\nHost: c15.example\r\nX-V: b%d\r\nX-Fault: silence\r\nX-D: 0\r\n\r\n", i)
			m, err := readRawResponse(bufio.NewReader(conn), "GET")
			out[i].done, out[i].err = w.Now(), err
			if m != nil {
				out[i].status = m.Status()
				out[i].body = string(m.Body)
			}
		}()
	}
	wg.Wait()
	wg2.Wait()
	for i, r := range mixed {
		if r.status != 502 || !strings.Contains(r.body, "<title>502") || strings.Contains(r.body, "<title>504") {
			run.Violate("burst:wrong-page", fmt.Sprintf("request %d at a refusing target while %d others were timing out: status %d, body %q", i, nreq, r.status, trunc(r.body, 80)), map[string]any{"idx": idx, "requests": nreq}, func() []string { return w.Trace(60) })
			return
		}
	}
	late, worst := 0, time.Duration(0)
	for i, r := range out {
		if r.err == nil && r.status == 504 && (!strings.Contains(r.body, "<title>504") || strings.Contains(r.body, "<title>502")) {
			run.Violate("burst:wrong-page", fmt.Sprintf("request %d of %d at a silent target: status 504 with body %q", i, nreq, trunc(r.body, 80)), map[string]any{"idx": idx, "requests": nreq}, func() []string { return w.Trace(60) })
			return
		}
		if r.err != nil || r.status != 504 {
			run.Violate("burst:wrong-status", fmt.Sprintf("request %d of %d at a silent target: status %d err %v, expected 504", i, nreq, r.status, r.err), map[string]any{"idx": idx, "requests": nreq}, func() []string { return w.Trace(60) })
			return
		}
		if d := r.done - r.sent; d > c15Timeout+Eps {
			late++
			if d > worst {
				worst = d
			}
		}
	}
	if late > 0 {
		run.Violate("burst:not-prompt", fmt.Sprintf("%d of %d requests in flight at a silent target got their 504 later than the target timeout %v after their arrival (slowest: %v)", late, nreq, c15Timeout, worst), map[string]any{"idx": idx, "requests": nreq}, func() []string { return w.Trace(60) })
		return
	}
	conn, err := w.connect(false, "")
	if err == nil {
		defer conn.Close()
		go fmt.Fprintf(conn, "GET /f HTTP/1.1\r\nHost: c15.example\r\nX-V: after\r\nX-Fault: none\r\n\r\n")
		if m, err := readRawResponse(bufio.NewReader(conn), "GET"); err != nil || m.Status() != 200 {
			run.Violate("burst:not-serving-afterwards", fmt.Sprintf("healthy request after %d timed-out ones: %v %v", nreq, m, err), map[string]any{"idx": idx, "requests": nreq}, func() []string { return w.Trace(60) })
			return
		}
	}
	run.Class(fmt.Sprintf("burst|n=%d|bufreq=%v", nreq, to.BufferRequests))
}

// the faulty target: behaviour chosen by the X-Fault / X-D headers of each request
func c15Serve(w *World) func(ft *FakeTarget, c net.Conn) {
	return func(ft *FakeTarget, c net.Conn) {
		br := bufio.NewReader(c)
		for {
			m, err := readRawRequest(br)
			if err != nil {
				return
			}
			d, _ := strconv.ParseInt(m.First("X-D"), 10, 64)
			wait := func(x time.Duration) bool { return w.sleep(x) }
			if !wait(OffTarget) {
				return
			}
			if m.First("X-Hints") == "1" {
				c.Write([]byte("HTTP/1.1 103 Early Hints\r\nLink: </style.css>; rel=preload\r\n\r\n"))
			}
			switch m.First("X-Fault") {
			case "close-at-once":
				if !wait(time.Duration(d)) {
					return
				}
				return
			case "partial-status-line":
				if !wait(time.Duration(d)) {
					return
				}
				c.Write([]byte("HTTP/1.1 2"))
				return
			case "garbage":
				if !wait(time.Duration(d)) {
					return
				}
				c.Write([]byte("\x00\x01\x02 this is not http\r\n\r\n"))
				return
			case "cut-headers":
				if !wait(time.Duration(d)) {
					return
				}
				c.Write([]byte("HTTP/1.1 200 OK\r\nContent-Length: 10\r\nX-Tar"))
				return
			case "cut-after-status-line":
				if !wait(time.Duration(d)) {
					return
				}
				c.Write([]byte("HTTP/1.1 200 OK\r\n"))
				return
			case "cut-between-headers":
				if !wait(time.Duration(d)) {
					return
				}
				c.Write([]byte("HTTP/1.1 200 OK\r\nContent-Type: text/plain\r\nX-Target: flt\r\n"))
				return
			case "silence":
				wait(1000 * time.Hour)
				return
			case "stall-headers":
				c.Write([]byte("HTTP/1.1 200 OK\r\nContent-Le"))
				if !wait(time.Duration(d)) {
					return
				}
				c.Write([]byte("ngth: 2\r\nX-Target: flt\r\n\r\nok"))
				continue
			case "late-answer":
				if !wait(time.Duration(d) - OffTarget) {
					return
				}
				if _, err := c.Write([]byte("HTTP/1.1 200 OK\r\nContent-Length: 2\r\nX-Target: flt\r\n\r\nok")); err != nil {
					return
				}
				continue
			case "short-body":
				c.Write([]byte("HTTP/1.1 200 OK\r\nContent-Length: 100\r\nX-Target: flt\r\n\r\nonly a part"))
				return
			case "cut-in-chunk":
				c.Write([]byte("HTTP/1.1 200 OK\r\nTransfer-Encoding: chunked\r\nX-Target: flt\r\n\r\n5\r\nhello\r\n64\r\npartial chunk"))
				return
			case "cut-between-chunks":
				c.Write([]byte("HTTP/1.1 200 OK\r\nTransfer-Encoding: chunked\r\nX-Target: flt\r\n\r\n5\r\nhello\r\n5\r\nworld\r\n"))
				return
			}
			if _, err := c.Write([]byte("HTTP/1.1 200 OK\r\nContent-Length: 2\r\nX-Target: flt\r\n\r\nok")); err != nil {
				return
			}
		}
	}
}

func c15Run(t *testing.T, run *Run, sc c15Scenario) {
	// the proxy's temporary files (spilled buffers) go to a directory of this scenario's own
	Fixtures() // (created once, under the TMPDIR of the process, before that is redirected)
	tmp := t.TempDir()
	oldTmp := os.Getenv("TMPDIR")
	os.Setenv("TMPDIR", tmp)
	defer os.Setenv("TMPDIR", oldTmp)
	w := NewWorld(t, WorldOpt{})
	defer w.Close()
	w.MaxClientLife = 10 * time.Minute
	run.Eval()
	fail := func(sig, format string, a ...any) {
		run.Violate(sig, fmt.Sprintf(format, a...), sc, func() []string { return w.Trace(80) })
	}
	ft := w.AddTarget("flt:80", nil)
	ft.RawServe = c15Serve(w)
	ft2 := w.AddTarget("refuser:80", nil)
	ft2.RefuseProxy = true
	so := server.ServiceOptions{TLSRedirect: true}
	if sc.Pages != "" {
		so.ErrorPagePath = Fixtures() + "/" + sc.Pages
	}
	to := DefTO
	to.ResponseTimeout = c15Timeout
	to.BufferRequests, to.BufferResponses = sc.BufReq, sc.BufResp
	if sc.Idx%2 == 1 {
		to.MaxMemoryBufferSize = 4 // whatever a buffering service receives beyond four bytes is spilled to a file
	}
	so2 := so
	so2.Hosts = []string{"refused.example"}
	if sc.Idx%2 == 0 {
		// the service was first deployed onto the same target with another target timeout (and
		// the opposite buffering): what counts is the configuration of the deploy in force
		first := to
		first.ResponseTimeout = 45 * time.Second
		first.BufferRequests, first.BufferResponses = !to.BufferRequests, !to.BufferResponses
		if c := w.Deploy("svc", []string{"flt:80"}, so, first, 5*time.Second, time.Second); c.Err != "" {
			run.Inconclusive("setup: %s", c.Err)
			return
		}
	}
	if c := w.Deploy("svc", []string{"flt:80"}, so, to, 5*time.Second, time.Second); c.Err != "" {
		run.Inconclusive("setup: %s", c.Err)
		return
	}
	if c := w.Deploy("svc2", []string{"refuser:80"}, so2, to, 5*time.Second, time.Second); c.Err != "" {
		run.Inconclusive("setup: %s", c.Err)
		return
	}
	send := func(id string, f c15Fault) (*RawMsg, time.Duration, time.Duration, error) {
		host := "c15.example"
		if f.Kind == "refused" {
			host = "refused.example"
		}
		conn, err := w.connect(false, "")
		if err != nil {
			return nil, 0, 0, err
		}
		defer conn.Close()
		sent := w.Now()
		raw := fmt.Sprintf("POST /f HTTP/1.1\r\nHost: %s\r\nX-V: %s\r\nX-Fault: %s\r\nX-D: %d\r\nX-Hints: %d\r\nContent-Length: 5\r\n\r\nhello", host, id, f.Kind, int64(f.D), map[bool]int{true: 1}[f.Hints])
		go conn.Write([]byte(raw))
		m, err := readRawResponse(bufio.NewReader(conn), "POST")
		return m, sent, w.Now(), err
	}
	checkPage := func(m *RawMsg, status int) string {
		body := string(m.Body)
		custom := map[string]string{"pages502:502": "ONLY502", "pages504:504": "ONLY504", "pagesboth:502": "BOTH502", "pagesboth:504": "BOTH504"}[fmt.Sprintf("%s:%d", sc.Pages, status)]
		if custom != "" {
			if body != custom {
				return fmt.Sprintf("expected the service's custom %d page %q, got %q", status, custom, trunc(body, 60))
			}
			return ""
		}
		if !strings.Contains(body, fmt.Sprintf("<title>%d", status)) || !strings.Contains(body, "</html>") {
			return fmt.Sprintf("expected the built-in %d page, got %q", status, trunc(body, 60))
		}
		return ""
	}
	healthy := func(id string) bool {
		m, _, _, err := send(id, c15Fault{Kind: "none"})
		if err != nil || m.Status() != 200 || string(m.Body) != "ok" || m.BodyErr != "" {
			st := -1
			if m != nil {
				st = m.Status()
			}
			fail("not-serving-after-fault", "healthy request %s after the faults so far: err=%v status=%d", id, err, st)
			return false
		}
		return true
	}
	for i, f := range sc.Faults {
		id := fmt.Sprintf("f%d", i)
		m, sent, done, err := send(id, f)
		early := contains(c15Early, f.Kind)
		if early && f.Hints && (err != nil || m == nil) && f.Kind != "late-answer" {
			// After a relayed informational response the statement can be read both ways (a header block
			// has been delivered / the response's header block has not): a visibly aborted connection is
			// accepted here too, provided it is prompt. What is never accepted is a complete-looking
			// response with another status (judged below when a response was parsed).
			limit := sent + f.D
			if f.Kind == "silence" || f.Kind == "stall-headers" {
				limit = sent + c15Timeout
			}
			if done > limit+Eps {
				fail("not-prompt:"+f.Kind+":after-hints", "fault %s after early hints: connection aborted at %v, expected by %v", f.Kind, done, limit)
				return
			}
			run.Count("abort_after_hints_accepted", 1)
		} else if early {
			if err != nil || m == nil {
				fail("no-wellformed-response:"+f.Kind, "fault %s: client got no parsable response: %v", f.Kind, err)
				return
			}
			if m.BodyErr != "" {
				fail("malformed-error-response:"+f.Kind, "fault %s: response %q has a broken body: %s", f.Kind, m.Line, m.BodyErr)
				return
			}
			want, at := 502, sent+f.D
			tie := false
			switch f.Kind {
			case "silence":
				want, at = 504, sent+c15Timeout
			case "stall-headers":
				want, at = 504, sent+c15Timeout
			case "late-answer":
				switch {
				case absDur(f.D-c15Timeout) < 2*Eps:
					tie = true
				case f.D < c15Timeout:
					want, at = 200, sent+f.D
				default:
					want, at = 504, sent+c15Timeout
				}
			case "refused":
				at = sent
			}
			if tie {
				run.Count("ties_skipped", 1)
				if m.Status() != 200 && m.Status() != 504 {
					fail("tie-bad-status", "answer at the target timeout: status %d", m.Status())
					return
				}
			} else {
				if m.Status() != want {
					fail(fmt.Sprintf("wrong-status:%s:want-%d:got-%d", f.Kind, want, m.Status()), "fault %s (d=%v): status %d, expected %d", f.Kind, f.D, m.Status(), want)
					return
				}
				if !near(done, at) {
					fail("not-prompt:"+f.Kind, "fault %s (d=%v): request sent %v, answered %d at %v, expected at %v", f.Kind, f.D, sent, m.Status(), done, at)
					return
				}
				if want != 200 {
					if p := checkPage(m, want); p != "" {
						fail(fmt.Sprintf("wrong-page:%d:%s", want, sc.Pages), "fault %s: %s", f.Kind, p)
						return
					}
				}
			}
		} else {
			// failure after the header block: the truncation must be visible
			if err == nil && m != nil && m.BodyErr == "" {
				fail("truncation-presented-as-complete:"+f.Kind, "fault %s: client received a complete-looking response %q with %d body bytes", f.Kind, m.Line, len(m.Body))
				return
			}
			if done-sent > Eps {
				fail("not-prompt:"+f.Kind, "fault %s: the client was left waiting %v", f.Kind, done-sent)
				return
			}
		}
		run.Class(fmt.Sprintf("%s|d=%v|hints=%v|req=%v|resp=%v|pages=%s", f.Kind, f.D > 0, f.Hints, sc.BufReq, sc.BufResp, sc.Pages))
		if !healthy(fmt.Sprintf("h%d", i)) {
			return
		}
	}
	// nothing left behind: a drain has nothing to wait for
	p := w.Pause("svc", 30*time.Second, 100*time.Second)
	if p.Err != "" || p.Ret-p.Issue > Eps {
		fail("residue-in-flight", "pause after the faults took %v (err %q): a failed request is still registered as in flight", p.Ret-p.Issue, p.Err)
		return
	}
	w.Resume("svc")
	if !healthy("final") {
		return
	}
	time.Sleep(2 * time.Second)
	if n, size := c14Spills(tmp); n != 0 {
		fail("residue:spill-file", "%d temporary buffer files (%d bytes) are left after every request has ended (buffering: requests %v, responses %v, buffer-memory %d)", n, size, sc.BufReq, sc.BufResp, to.MaxMemoryBufferSize)
		return
	}
	run.Count("faults_checked", len(sc.Faults))
	run.Sample(sc)
}
