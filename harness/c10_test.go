package verifharness

// C10 Rollout split is sticky, monotone and confined to opted-in requests.

import (
	"fmt"
	"math/rand/v2"
	"os"
	"strings"
	"sync/atomic"
	"testing"
	"testing/synctest"
	"time"

	"github.com/basecamp/kamal-proxy/internal/server"
)

type c10Scenario struct {
	Idx    int      `json:"idx"`
	Kind   string   `json:"kind"` // grid | share | history | hostile
	Values []string `json:"values,omitempty"`
	Allow  []string `json:"allow,omitempty"`
	N      int      `json:"n,omitempty"`
	Hist   []string `json:"history,omitempty"`
}

// c10Boundary: cookie values whose hash (FNV-1a, what the implementation uses today) lies within a few
// dozen of the ends of the 32-bit range or of the 1%, 50% and 99% points. Knowledge of the hash only
// picks *inputs* here; what is demanded of them is what the statement demands of every value.
var c10Boundary = []string{
	"user-183226174", "user-332209710", "user-396717694", "user-467362232", // top of the range
	"user-119832201", "user-122798007", "user-169745824", "user-66684806", // bottom
	"user-138398509", "user-17060934", "user-199859412", "user-3879479", // around 1%
	"user-44604721", "user-46265160", "user-64905848", "user-66933198", // around 50%
	"user-21702732", "user-24376093", "user-35154380", "user-87116634", // around 99%
}

var c10Escaped = []string{"team%2Bqa", "team+qa", "ops%40example.com", "ops@example.com", "a+b", "a%20b", "%41", "A", "%", "%zz", "100%25"}

var c10Adversarial = []string{"a", "0", "u1", "user-1", "USER_1", "x.y~z", "00000000", "ffffffff", "kamal-rollout", "true", "1e9", strings.Repeat("z", 200)}

func c10Value(rng *rand.Rand) string {
	const al = "abcdefghijklmnopqrstuvwxyzABCDEFGHIJKLMNOPQRSTUVWXYZ0123456789-_.~"
	n := 1 + rng.IntN(24)
	b := make([]byte, n)
	for i := range b {
		b[i] = al[rng.IntN(len(al))]
	}
	return string(b)
}

func c10Gen(rng *rand.Rand, idx int, thorough bool) c10Scenario {
	sc := c10Scenario{Idx: idx}
	switch {
	case idx == 0:
		sc.Kind, sc.N = "share", 5000
		if thorough {
			sc.N = 20000
		}
	case idx%4 == 1:
		sc.Kind = "history"
		switch idx {
		case 1: // canonical: every kind of split survives a redeploy, a rollout redeploy and a restart
			sc.Hist = []string{"set50", "rollout-deploy", "set50", "deploy", "rollout-deploy", "restart", "deploy", "set0+allow", "deploy", "rollout-deploy", "restart", "set100", "deploy", "rollout-deploy", "restart", "rollout-stop", "deploy", "rollout-deploy", "restart", "deploy"}
			return sc
		case 5: // canonical: rollout commands acknowledged while a deploy is waiting for its targets
			sc.Hist = []string{"rollout-deploy", "set50", "deploy+rollout-stop", "deploy+set100", "deploy", "deploy+set0+allow", "restart", "deploy+rollout-stop", "restart", "deploy+set100", "rollout-deploy"}
			return sc
		}
		n := 4 + rng.IntN(10)
		for i := 0; i < n; i++ {
			sc.Hist = append(sc.Hist, pick(rng, []string{"rollout-deploy", "set100", "set0+allow", "rollout-stop", "deploy", "set50", "rollout-deploy", "restart", "restart",
				// a deploy that is still waiting for its targets to become healthy while the rollout command runs and returns
				"deploy+rollout-stop", "deploy+set100", "deploy+set0+allow"}))
		}
	case idx%8 == 7:
		// many clients at the same instant: each decision is still a function of its own cookie only
		sc.Kind = "concurrent"
		for i := 0; i < 48; i++ {
			sc.Values = append(sc.Values, c10Value(rng))
		}
	case idx%4 == 2:
		sc.Kind = "hostile"
		for i := 0; i < 12; i++ {
			v := c10Value(rng)
			sc.Values = append(sc.Values, pick(rng, []string{
				"kamal-rollout=" + v + "; kamal-rollout=other",
				"a=b; kamal-rollout=" + v + "; c=d",
				`kamal-rollout="` + v + `"`,
				"kamal-rollout=" + v + " ; x",
				"kamal-rollout=" + v + "\x7f",
				"kamal-rollout=" + v + ",x",
				"kamal-rollout=" + strings.Repeat(v, 8000/len(v)+1)[:8000],
				"Kamal-Rollout=" + v,
				"kamal-rollout =" + v,
				";;kamal-rollout=" + v + ";;",
				"kamal-rollout=" + v + "=" + v,
				"kamal-rollout=é" + v,
			}))
		}
	default:
		sc.Kind = "grid"
		for i := 0; i < 40; i++ {
			sc.Values = append(sc.Values, c10Value(rng))
		}
		sc.Values = append(sc.Values, c10Adversarial[rng.IntN(len(c10Adversarial))], c10Adversarial[rng.IntN(len(c10Adversarial))])
		if idx == 3 || rng.IntN(3) == 0 {
			sc.Values = append(sc.Values, c10Boundary...)
		} else {
			sc.Values = append(sc.Values, c10Boundary[rng.IntN(len(c10Boundary))], c10Boundary[rng.IntN(len(c10Boundary))])
		}
		for i := 0; i < rng.IntN(6); i++ {
			sc.Allow = append(sc.Allow, sc.Values[rng.IntN(len(sc.Values))])
		}
		// values that look like something else when "decoded": the value is the bytes of the cookie
		sc.Values = append(sc.Values, c10Escaped...)
		if idx%2 == 0 {
			sc.Allow = append(sc.Allow, "team%2Bqa", "ops@example.com", "a+b")
		}
	}
	return sc
}

func TestC10(t *testing.T) {
	run := NewRun(t, "C10")
	defer run.Finish()
	n := run.N(48, 1600)
	for i := 0; i < n; i++ {
		sc := c10Gen(run.Rand(i), i, run.Thorough())
		if only := os.Getenv("VERIF_C10_ONLY_KIND"); only != "" && sc.Kind != only {
			continue // the pass under the race detector runs the concurrent scenarios only
		}
		if !run.Mine(i, sc) {
			continue
		}
		synctest.Test(t, func(t *testing.T) { c10Run(t, run, sc, run.Rand(i+1<<30)) })
	}
	if os.Getenv("VERIF_C10_ONLY_KIND") != "" {
		return
	}
	// a split set or stopped while another command is writing its snapshot survives a restart like
	// any other (the overlap scenarios of C12: the snapshot steps of two commands interleaved, then
	// a proxy restored from the file is compared with the live one, rollout cookies included)
	for k := 0; k < run.N(16, 400); k++ {
		sc := c12Gen(run.Rand(n+k), 4*k+3, 1<<30, 0, 0)
		if !run.Mine(n+k, sc) {
			continue
		}
		synctest.Test(t, func(t *testing.T) { c12Sim(t, run, sc) })
	}
	for k := 0; k < run.N(6, 60); k++ {
		desc := map[string]any{"idx": k, "kind": "rollout-stopped-while-requests-wait"}
		if !run.Mine(n+5000+k, desc) {
			continue
		}
		synctest.Test(t, func(t *testing.T) { c10HeldStop(t, run, k, desc) })
	}
	// one side of the split out of rotation (its targets fail their health checks, once or flapping)
	// while the split is in force: the decision stays a function of the cookie value alone
	for k := 0; k < run.N(20, 500); k++ {
		sc := c10OutageGen(run.Rand(n+6000+k), k)
		if !run.Mine(n+6000+k, sc) {
			continue
		}
		synctest.Test(t, func(t *testing.T) { c10Outage(t, run, sc) })
	}
}

// c10OutageScenario: a split is set with both target sets healthy; then every target (or one of two)
// of ONE side fails its health checks during one or more windows (a flapping side), optionally with
// a command in the middle. Requests of a fixed panel are sent twice a second all the way through.
type c10OutageScenario struct {
	Idx      int      `json:"idx"`
	Kind     string   `json:"kind"` // side-outage
	Pct      int      `json:"pct"`
	Allow    []string `json:"allow,omitempty"`
	NActive  int      `json:"n_active"`
	NRollout int      `json:"n_rollout"`
	Side     string   `json:"side"`    // rollout | active: the side whose targets fail
	Partial  bool     `json:"partial"` // only the last one of the two targets of that side fails
	Fault    string   `json:"fault"`   // 503 | 500 | refuse | close | down (probes and proxied connections refused)
	Windows  [][2]int `json:"windows"` // seconds after the start of the observation, [from, to)
	Mid      string   `json:"mid,omitempty"`
	MidTick  int      `json:"mid_tick,omitempty"`
	Pct2     int      `json:"pct2,omitempty"`
	Allow2   []string `json:"allow2,omitempty"`
	Values   []string `json:"values"`
}

func c10OutageGen(rng *rand.Rand, idx int) c10OutageScenario {
	sc := c10OutageScenario{Idx: idx, Kind: "side-outage", NActive: 1 + rng.IntN(2), NRollout: 1 + rng.IntN(2), Side: "rollout"}
	sc.Values = []string{"u1", "u2", "zz9", "user-7", "0123456789abcdef"}
	for i := 0; i < 4; i++ {
		sc.Values = append(sc.Values, c10Value(rng))
	}
	split := func() (int, []string) {
		switch rng.IntN(4) {
		case 0:
			return 100, nil
		case 1:
			return 0, []string{"u1", sc.Values[5]}
		case 2:
			return 1 + rng.IntN(99), []string{sc.Values[6]}
		}
		return 1 + rng.IntN(99), nil
	}
	sc.Pct, sc.Allow = split()
	if rng.IntN(10) < 3 {
		sc.Side = "active"
	}
	if n := map[string]int{"rollout": sc.NRollout, "active": sc.NActive}[sc.Side]; n == 2 && rng.IntN(3) == 0 {
		sc.Partial = true
	}
	sc.Fault = pick(rng, []string{"503", "503", "500", "refuse", "close", "down"})
	at := 1 + rng.IntN(3)
	for i, nw := 0, 1+rng.IntN(3); i < nw; i++ {
		d := 2 + rng.IntN(4)
		sc.Windows = append(sc.Windows, [2]int{at, at + d})
		at += d + 3 + rng.IntN(3)
	}
	ticks := 2 * (sc.Windows[len(sc.Windows)-1][1] + 4)
	if rng.IntN(2) == 0 {
		sc.Mid = pick(rng, []string{"reset-split", "set-other", "deploy", "rollout-redeploy", "restart", "rollout-stop", "restart"})
		sc.MidTick = 2*sc.Windows[0][0] + 1 + rng.IntN(ticks-2*sc.Windows[0][0]-2)
		if rng.IntN(2) == 0 { // inside the first window
			sc.MidTick = 2*sc.Windows[0][0] + 2 + rng.IntN(2*(sc.Windows[0][1]-sc.Windows[0][0])-2)
		}
		if sc.Mid == "set-other" {
			sc.Pct2, sc.Allow2 = split()
		}
	}
	switch idx { // canonical ones: each kind of split with all rollout targets out of rotation for a while
	case 0:
		sc.Pct, sc.Allow, sc.Side, sc.Partial, sc.Fault, sc.Mid = 0, []string{"u1"}, "rollout", false, "503", ""
	case 1:
		sc.Pct, sc.Allow, sc.Side, sc.Partial, sc.Fault, sc.Mid = 100, nil, "rollout", false, "refuse", ""
	case 2:
		sc.Pct, sc.Allow, sc.Side, sc.Partial, sc.Fault, sc.Mid = 50, nil, "rollout", false, "close", ""
	case 3:
		sc.Pct, sc.Allow, sc.Side, sc.Partial, sc.Fault, sc.Mid = 100, nil, "active", false, "503", ""
	}
	return sc
}

// c10Outage judges by what is certain whatever the health of the targets: a response that WAS served
// by a target shows the side the request went to, and that side must be the one the cookie value
// decides (exactly known for 100%, 0%, allowlisted values and requests without the cookie; for other
// percentages the same side every time while the split is unchanged). A request that nobody could
// serve (503/502 while its side is out) shows nothing and is only counted. Outside the windows (from
// two seconds after the end of one - the probe interval is one second - to the start of the next) and
// throughout when a healthy target of the side remains, requests must be served, as everywhere else
// in this check.
func c10Outage(t *testing.T, run *Run, sc c10OutageScenario) {
	w := NewWorld(t, WorldOpt{})
	defer w.Close()
	run.Eval()
	const svc = "svc"
	fail := func(sig, format string, a ...any) {
		run.Violate(sig, fmt.Sprintf(format, a...), sc, func() []string { return w.Trace(120) })
	}
	var base atomic.Int64
	inWindow := func(at time.Duration) bool {
		b := time.Duration(base.Load())
		if b == 0 {
			return false
		}
		for _, win := range sc.Windows {
			if at >= b+time.Duration(win[0])*time.Second && at < b+time.Duration(win[1])*time.Second {
				return true
			}
		}
		return false
	}
	bad := map[string]ProbeAct{"503": {Status: 503}, "500": {Status: 500}, "refuse": {Refuse: true}, "close": {Close: true}, "down": {Refuse: true}}[sc.Fault]
	faulty := func(n int, at time.Duration) ProbeAct {
		if inWindow(at) {
			return bad
		}
		return ProbeAct{Status: 200}
	}
	var faulted []*FakeTarget
	names := func(prefix string, n int, side string) []string {
		var out []string
		for i := 0; i < n; i++ {
			name := fmt.Sprintf("%s-t%d:80", prefix, i)
			if sc.Side == side && (!sc.Partial || i == n-1) {
				faulted = append(faulted, w.AddTarget(name, faulty))
			} else {
				w.AddTarget(name, nil)
			}
			out = append(out, name)
		}
		return out
	}
	if c := w.Deploy(svc, names("a1", sc.NActive, "active"), DefSO, DefTO, 5*time.Second, time.Second); c.Err != "" {
		run.Inconclusive("setup: %s", c.Err)
		return
	}
	if c := w.RolloutDeploy(svc, names("r1", sc.NRollout, "rollout"), 5*time.Second, time.Second); c.Err != "" {
		run.Inconclusive("setup: %s", c.Err)
		return
	}
	if c := w.RolloutSet(svc, sc.Pct, sc.Allow); c.Err != "" || c.Panic != "" {
		fail("rollout-set-failed", "rollout set %d %v failed: %s %s", sc.Pct, sc.Allow, c.Err, c.Panic)
		return
	}
	cur := w.Primary()
	pct, allow, stopped := sc.Pct, sc.Allow, false
	want := func(v string) string { // "" = not fixed by the statement without knowing the hash: learnt
		switch {
		case v == "" || stopped:
			return "a"
		case pct == 100 || contains(allow, v):
			return "r"
		case pct == 0:
			return "a"
		}
		return ""
	}
	seen := map[string]string{} // value -> side it was served by under the split in force
	healed := false             // the failing targets were replaced by a command in the middle
	b0 := w.Now() + time.Second
	base.Store(int64(b0))
	ticks := 2 * (sc.Windows[len(sc.Windows)-1][1] + 4)
	nreq, unserved, stormTicks := 0, 0, 0
	for k := 0; k < ticks; k++ {
		at := b0 + time.Duration(k)*500*time.Millisecond + 250*time.Millisecond + OffArrival
		w.SleepUntil(at)
		if sc.Fault == "down" {
			for _, ft := range faulted {
				ft.mu.Lock()
				ft.RefuseProxy = inWindow(at)
				ft.mu.Unlock()
			}
		}
		if sc.Mid != "" && k == sc.MidTick {
			var err error
			switch sc.Mid {
			case "reset-split":
				err = cur.Router.SetRolloutSplit(svc, pct, allow)
			case "set-other":
				if err = cur.Router.SetRolloutSplit(svc, sc.Pct2, sc.Allow2); err == nil {
					pct, allow, seen = sc.Pct2, sc.Allow2, map[string]string{}
				}
			case "rollout-stop":
				if err = cur.Router.StopRollout(svc); err == nil {
					stopped, seen = true, map[string]string{}
				}
			case "deploy":
				w.AddTarget("a2-t0:80", nil)
				err = cur.Router.DeployService(svc, []string{"a2-t0:80"}, DefSO, DefTO, 5*time.Second, time.Second)
				healed = healed || (err == nil && sc.Side == "active")
			case "rollout-redeploy":
				w.AddTarget("r2-t0:80", nil)
				err = cur.Router.SetRolloutTargets(svc, []string{"r2-t0:80"}, 5*time.Second, time.Second)
				healed = healed || (err == nil && sc.Side == "rollout")
			case "restart":
				p2 := w.NewProxy(w.CopyStateOf(cur.StatePath))
				if err = p2.Router.RestoreLastSavedState(); err == nil {
					cur = p2
				}
			}
			if err != nil {
				if sc.Mid == "reset-split" || sc.Mid == "set-other" {
					fail("rollout-set-rejected", "tick %d: rollout set rejected (%v) although rollout targets exist", k, err)
				} else {
					run.Inconclusive("side-outage: %s in the middle failed: %v", sc.Mid, err)
				}
				return
			}
		}
		// calm: every target has had a passing probe since the last window (or none has failed yet)
		calm := healed || sc.Partial && sc.Fault != "down"
		if !calm {
			calm = true
			b := b0
			for _, win := range sc.Windows {
				if at >= b+time.Duration(win[0])*time.Second && at < b+time.Duration(win[1]+2)*time.Second {
					calm = false
				}
			}
		}
		if !calm {
			stormTicks++
		}
		for _, v := range append([]string{""}, sc.Values...) {
			nreq++
			r := Req{ID: fmt.Sprintf("o%d", nreq), Host: "c10.example", Path: "/"}
			if v != "" {
				r.Hdr = [][2]string{{"Cookie", "kamal-rollout=" + v}}
			}
			resp := cur.Do(r)
			s := ""
			if resp.Status == 200 && resp.Target != "" {
				s = resp.Target[:1]
			}
			state := fmt.Sprintf("split %d%% allowlist %v (stopped=%v); %s targets (%s) failing their health checks (%s) in the windows %v s after %v; tick %d at %v",
				pct, allow, stopped, sc.Side, map[bool]string{true: "one of two", false: "all"}[sc.Partial], sc.Fault, sc.Windows, b0, k, at)
			if s == "" {
				if calm {
					fail("request-failed", "cookie value %q: status=%d err=%s although every side has healthy targets [%s]", v, resp.Status, resp.Err, state)
					return
				}
				unserved++
				continue
			}
			if exp := want(v); exp != "" && s != exp {
				sig := "side-outage:excluded-request-served-by-rollout"
				if exp == "r" {
					sig = "side-outage:included-request-served-by-active"
				}
				fail(sig, "cookie value %q (\"\" = no cookie) belongs to side %q but was served by %s [%s]", v, exp, resp.Target, state)
				return
			}
			if prev, ok := seen[v]; ok && prev != s {
				fail("side-outage:not-sticky", "cookie value %q was served by side %q earlier and by %s now, with the split unchanged [%s]", v, prev, resp.Target, state)
				return
			}
			seen[v] = s
		}
	}
	run.Count("side_outage_requests", nreq)
	run.Count("side_outage_unserved", unserved)
	kind := "pct"
	switch {
	case sc.Pct == 100:
		kind = "100"
	case sc.Pct == 0:
		kind = "0+allow"
	case len(sc.Allow) > 0:
		kind = "pct+allow"
	}
	run.Class(fmt.Sprintf("side-outage|side=%s|all=%v|fault=%s|split=%s|windows=%d|mid=%s|unserved=%v", sc.Side, !sc.Partial, sc.Fault, kind, len(sc.Windows), sc.Mid, unserved > 0))
	run.Sample(map[string]any{"kind": "side-outage", "scenario": sc, "requests": nreq, "unserved": unserved, "storm_ticks": stormTicks})
}

// c10HeldStop: "all requests ... after `rollout stop` go to the active targets" - also the ones that
// were received before it and are forwarded after it: requests with an included cookie value wait at
// a paused service (or, placed by a hook delay, between the route lookup and the gate) while
// `rollout stop` is issued and returns; when they go on, they go to the active targets.
func c10HeldStop(t *testing.T, run *Run, idx int, desc any) {
	w := NewWorld(t, WorldOpt{})
	defer w.Close()
	run.Eval()
	const svc = "svc"
	w.AddTarget("a1-t0:80", nil)
	w.AddTarget("r1-t0:80", nil)
	if c := w.Deploy(svc, []string{"a1-t0:80"}, DefSO, DefTO, 5*time.Second, time.Second); c.Err != "" {
		run.Inconclusive("setup: %s", c.Err)
		return
	}
	if c := w.RolloutDeploy(svc, []string{"r1-t0:80"}, 5*time.Second, time.Second); c.Err != "" {
		run.Inconclusive("setup: %s", c.Err)
		return
	}
	allow := []string(nil)
	pct := 100
	if idx%2 == 1 {
		allow, pct = []string{"u1", "u2"}, 0
	}
	if c := w.RolloutSet(svc, pct, allow); c.Err != "" {
		run.Inconclusive("setup: %s", c.Err)
		return
	}
	paused := idx%3 != 2
	t0 := w.Now() + time.Second
	// before: an included value goes to the rollout targets
	if r := w.Do(Req{ID: "before", Host: "c10.example", Path: "/", Hdr: [][2]string{{"Cookie", "kamal-rollout=u1"}}}); r.Status != 200 || !strings.HasPrefix(r.Target, "r1-") {
		run.Violate("included-not-rollout", fmt.Sprintf("with the split set (%d%%, allowlist %v) cookie u1 got status=%d target=%q", pct, allow, r.Status, r.Target), desc, func() []string { return w.Trace(80) })
		return
	}
	if paused {
		w.At(t0, func() { w.Pause(svc, time.Second, 100*time.Second) })
	}
	for k := 0; k < 3; k++ {
		id := fmt.Sprintf("w%d", k)
		if !paused {
			w.SetReqDelay(id, []string{"route.resolved", "service.gate.passed"}[k%2], 2*time.Second)
		}
		w.GoReq(t0+500*time.Millisecond+time.Duration(k)*10*time.Millisecond+OffArrival, Req{ID: id, Host: "c10.example", Path: "/", Hdr: [][2]string{{"Cookie", "kamal-rollout=u" + fmt.Sprint(1+k%2)}}})
	}
	var stopRec *CmdRec
	w.At(t0+time.Second, func() { stopRec = w.RolloutStop(svc) })
	if paused {
		w.At(t0+2*time.Second, func() { w.Resume(svc) })
	}
	w.Wait()
	if stopRec == nil || stopRec.Err != "" {
		run.Inconclusive("rollout stop failed")
		return
	}
	for _, r := range w.RespLog() {
		if !strings.HasPrefix(r.ID, "w") {
			continue
		}
		if r.Status != 200 || !strings.HasPrefix(r.Target, "a1-") || r.Done < stopRec.Ret {
			run.Violate("rollout-after-stop:request-waiting", fmt.Sprintf("request %s (cookie value included by the split) arrived at %v and waited (%s); `rollout stop` returned at %v; it went on afterwards and got status=%d target=%q at %v", r.ID, r.Sent, map[bool]string{true: "service paused, resumed later", false: "delayed before the gate"}[paused], stopRec.Ret, r.Status, r.Target, r.Done), desc, func() []string { return w.Trace(120) })
			return
		}
	}
	run.Class(fmt.Sprintf("held-stop|paused=%v|allowlist=%v", paused, allow != nil))
}

func c10Run(t *testing.T, run *Run, sc c10Scenario, rng *rand.Rand) {
	w := NewWorld(t, WorldOpt{})
	defer w.Close()
	run.Eval()
	const svc = "svc"
	fail := func(sig, format string, a ...any) {
		run.Violate(sig, fmt.Sprintf(format, a...), sc, func() []string { return w.Trace(80) })
	}
	w.AddTarget("a1-t0:80", nil)
	w.AddTarget("a1-t1:80", nil)
	w.AddTarget("r1-t0:80", nil)
	if c := w.Deploy(svc, []string{"a1-t0:80", "a1-t1:80"}, DefSO, DefTO, 5*time.Second, time.Second); c.Err != "" {
		run.Inconclusive("setup: %s", c.Err)
		return
	}
	nreq := 0
	cur := w.Primary() // the proxy currently in charge (replaced by a restored one on "restart")
	side := func(cookieHeader string) string {
		nreq++
		r := Req{ID: fmt.Sprintf("q%d", nreq), Host: "c10.example", Path: "/"}
		if cookieHeader != "" {
			r.Hdr = [][2]string{{"Cookie", cookieHeader}}
		}
		resp := cur.Do(r)
		if resp.Status != 200 || resp.Target == "" {
			return fmt.Sprintf("!status=%d err=%s", resp.Status, resp.Err)
		}
		return resp.Target[:1] // "a" or "r"
	}
	mustSet := func(p int, allow []string) bool {
		if c := w.RolloutSet(svc, p, allow); c.Err != "" || c.Panic != "" {
			fail("rollout-set-failed", "rollout set %d %v failed: %s %s", p, allow, c.Err, c.Panic)
			return false
		}
		return true
	}
	if sc.Kind == "history" {
		c10History(w, run, sc, side, fail, &cur)
		return
	}
	// `rollout set` before rollout targets exist is rejected
	if c := w.RolloutSet(svc, 50, nil); c.Err == "" {
		fail("split-accepted-without-rollout-targets", "rollout set before any rollout deploy was accepted")
		return
	}
	if c := w.RolloutDeploy(svc, []string{"r1-t0:80"}, 5*time.Second, time.Second); c.Err != "" {
		run.Inconclusive("setup: %s", c.Err)
		return
	}
	// no split set yet: everything active
	if s := side("kamal-rollout=u1"); s != "a" {
		fail("rollout-without-split", "no split set, cookie-bearing request went to %q", s)
		return
	}
	switch sc.Kind {
	case "grid", "hostile":
		hostile := sc.Kind == "hostile"
		inAllow := func(v string) bool { return contains(sc.Allow, v) }
		first := map[string]int{} // smallest p at which v was seen included
		for i := range sc.Values {
			first[sc.Values[i]] = -1
		}
		for p := 0; p <= 100; p++ {
			if !mustSet(p, sc.Allow) {
				return
			}
			if s := side(""); s != "a" {
				fail("no-cookie-to-rollout", "at %d%% a request without the cookie went to %q", p, s)
				return
			}
			if s := side("other=1; session=abc"); s != "a" {
				fail("no-cookie-to-rollout", "at %d%% a request with unrelated cookies went to %q", p, s)
				return
			}
			for _, v := range sc.Values {
				hdr := "kamal-rollout=" + v
				if hostile {
					hdr = v
				}
				s := side(hdr)
				if hostile && strings.HasPrefix(s, "!status=400") {
					continue // net/http itself rejects the header bytes; the proxy never sees the request
				}
				if s != "a" && s != "r" {
					fail("request-failed", "cookie header %q at %d%%: %s", trunc(hdr, 60), p, s)
					return
				}
				if !hostile && (p%25 == 7 || p == 50) {
					// the same value in a second Cookie header line, or among other cookies, is the same value
					nreq++
					rr := w.Do(Req{ID: fmt.Sprintf("q%d", nreq), Host: "c10.example", Path: "/", Hdr: [][2]string{{"Cookie", "theme=dark; session=abc"}, {"Cookie", "kamal-rollout=" + v}}})
					s2 := "!"
					if rr.Status == 200 && rr.Target != "" {
						s2 = rr.Target[:1]
					}
					if s3 := side("a=1; kamal-rollout=" + v + "; z=2"); s2 != s || s3 != s {
						fail("decision-depends-on-header-layout", "value %q at %d%%: alone -> %q, in a second Cookie header line -> %q, among other cookies -> %q", v, p, s, s2, s3)
						return
					}
				}
				if p%10 == 3 || p == 50 { // stickiness
					for k := 0; k < 3; k++ {
						if s2 := side(hdr); s2 != s {
							fail("not-sticky", "cookie %q at %d%%: first %q then %q", trunc(hdr, 60), p, s, s2)
							return
						}
					}
				}
				if !hostile && inAllow(v) {
					if s != "r" {
						fail("allowlisted-not-rollout", "value %q is on the allowlist %v but went to active at %d%%", v, sc.Allow, p)
						return
					}
					continue
				}
				if p == 0 && s == "r" && !hostile {
					fail("included-at-0-percent", "value %q is not on the allowlist %v, yet at 0%% it went to the rollout targets", v, sc.Allow)
					return
				}
				if s == "r" && first[v] < 0 {
					first[v] = p
				}
				if s == "a" && first[v] >= 0 && !hostile {
					fail("not-monotone", "value %q included at %d%% but not at %d%%", v, first[v], p)
					return
				}
				if s == "a" && first[v] >= 0 && hostile {
					fail("not-monotone", "cookie header %q included at %d%% but not at %d%%", trunc(v, 60), first[v], p)
					return
				}
				if p == 100 && s != "r" && !hostile {
					fail("not-included-at-100", "value %q not included at 100%%", v)
					return
				}
			}
		}
		run.Count("grid_requests", nreq)
		inc50 := 0
		for _, v := range sc.Values {
			if first[v] >= 0 && first[v] <= 50 {
				inc50++
			}
		}
		run.Class(fmt.Sprintf("%s|allow=%d|included_by_50=%d", sc.Kind, len(sc.Allow), inc50*10/len(sc.Values)))
		run.Sample(map[string]any{"kind": sc.Kind, "values": len(sc.Values), "allow": sc.Allow, "percentages": 101, "requests": nreq})
	case "concurrent":
		for _, p := range []int{50, 20, 80} {
			if !mustSet(p, nil) {
				return
			}
			base := map[string]string{}
			for _, v := range sc.Values {
				base[v] = side("kamal-rollout=" + v)
			}
			for round := 0; round < 4; round++ {
				at := w.Now() + 10*time.Millisecond
				ids := map[string]string{}
				for i, v := range sc.Values {
					nreq++
					id := fmt.Sprintf("cc%d-%d-%d-%d", p, round, i, nreq)
					ids[id] = v
					w.GoReq(at, Req{ID: id, Host: "c10.example", Path: "/", Hdr: [][2]string{{"Cookie", "kamal-rollout=" + v}}})
				}
				w.Wait()
				for _, r := range w.RespLog() {
					v, mine := ids[r.ID]
					if !mine {
						continue
					}
					got := "!"
					if r.Status == 200 && r.Target != "" {
						got = r.Target[:1]
					}
					if got != base[v] {
						fail("decision-depends-on-concurrent-requests", "value %q goes to %q at %d%% when asked alone, but went to %q when %d clients asked at the same instant", v, base[v], p, got, len(sc.Values))
						return
					}
				}
			}
			run.Class(fmt.Sprintf("concurrent|p=%d", p))
		}
		run.Sample(map[string]any{"kind": "concurrent", "values": len(sc.Values)})
	case "share":
		vals := make([]string, sc.N)
		for i := range vals {
			vals[i] = fmt.Sprintf("%016x", rng.Uint64())
		}
		for _, p := range []int{0, 1, 5, 10, 25, 33, 50, 66, 75, 90, 95, 99, 100} {
			if !mustSet(p, nil) {
				return
			}
			in := 0
			for _, v := range vals {
				switch s := side("kamal-rollout=" + v); s {
				case "r":
					in++
				case "a":
				default:
					fail("request-failed", "value %q at %d%%: %s", v, p, s)
					return
				}
			}
			share := 100 * float64(in) / float64(len(vals))
			if share < float64(p)-3 || share > float64(p)+3 {
				fail("share-off", "at %d%% the included share of %d random values is %.2f%%", p, len(vals), share)
				return
			}
			run.Class(fmt.Sprintf("share|p=%d", p))
		}
		run.Count("share_requests", nreq)
		run.Sample(map[string]any{"kind": "share", "values": sc.N})
	}
}

// c10History: deploy / rollout deploy / set / stop histories with exact expectations
// (100% split, 0% + allowlist, 50% only compared with itself).
func c10History(w *World, run *Run, sc c10Scenario, side func(string) string, fail func(sig, format string, a ...any), cur **Proxy) {
	const svc = "svc"
	router := func() *server.Router { return (*cur).Router }
	hasRollout, split := false, ""
	gen := 1
	panel := []string{"u1", "u2", "zz9", "0123456789abcdef", "u3", "u4", "u5", "user-6", "user-7", "user-8", "a", "b"}
	var at50 map[string]string
	for step, h := range sc.Hist {
		var pending chan error
		join := func() bool {
			if pending == nil {
				return true
			}
			err := <-pending
			pending = nil
			if err != nil {
				fail("deploy-failed", "step %d: overlapping deploy: %v", step, err)
				return false
			}
			return true
		}
		if rest, ok := strings.CutPrefix(h, "deploy+"); ok {
			gen++
			name := fmt.Sprintf("a%d-t0:80", gen)
			w.AddTarget(name, func(n int, at time.Duration) ProbeAct {
				if n == 0 {
					return ProbeAct{Status: 200, Delay: time.Second}
				}
				return ProbeAct{Status: 200}
			})
			pending = make(chan error, 1)
			r := router()
			go func() { pending <- r.DeployService(svc, []string{name}, DefSO, DefTO, 5*time.Second, time.Second) }()
			time.Sleep(300*time.Millisecond + OffArrival)
			h = rest
		}
		switch h {
		case "rollout-deploy":
			gen++
			name := fmt.Sprintf("r%d-t0:80", gen)
			w.AddTarget(name, nil)
			if err := router().SetRolloutTargets(svc, []string{name}, 5*time.Second, time.Second); err != nil {
				fail("rollout-deploy-failed", "step %d: %v", step, err)
				return
			}
			hasRollout = true
		case "deploy":
			gen++
			name := fmt.Sprintf("a%d-t0:80", gen)
			w.AddTarget(name, nil)
			if err := router().DeployService(svc, []string{name}, DefSO, DefTO, 5*time.Second, time.Second); err != nil {
				fail("deploy-failed", "step %d: %v", step, err)
				return
			}
		case "rollout-stop":
			if err := router().StopRollout(svc); err != nil {
				fail("rollout-stop-failed", "step %d: %v", step, err)
				return
			}
			split = ""
		case "restart":
			// a new proxy restored from the state file takes over; targets, split and its decisions
			// must be what they were
			p2 := w.NewProxy(w.CopyStateOf((*cur).StatePath))
			if err := p2.Router.RestoreLastSavedState(); err != nil {
				fail("restore-failed", "step %d: %v", step, err)
				return
			}
			*cur = p2
		default: // set100 | set0+allow | set50
			p, allow := 100, []string(nil)
			if h == "set0+allow" {
				p, allow = 0, []string{"u1"}
			}
			if h == "set50" {
				p = 50
			}
			c := w.Cmd("rollout-set", fmt.Sprint(p, allow), func() error { return router().SetRolloutSplit(svc, p, allow) })
			if !hasRollout {
				if c.Err == "" {
					fail("split-accepted-without-rollout-targets", "step %d: rollout set accepted although no rollout targets were ever deployed", step)
					return
				}
				if !join() {
					return
				}
				continue
			}
			if c.Err != "" {
				fail("rollout-set-rejected", "step %d: rollout set rejected (%s) although rollout targets exist", step, c.Err)
				return
			}
			split = h
			at50 = nil
		}
		if !join() {
			return
		}
		// observe the panel
		if s := side(""); s != "a" {
			fail("no-cookie-to-rollout", "step %d (%s): request without cookie went to %q", step, h, s)
			return
		}
		for _, v := range panel {
			s := side("kamal-rollout=" + v)
			want := "a"
			switch split {
			case "set100":
				want = "r"
			case "set0+allow":
				if v == "u1" {
					want = "r"
				}
			case "set50":
				if at50 == nil {
					at50 = map[string]string{}
				}
				if prev, ok := at50[v]; ok {
					want = prev
				} else {
					at50[v] = s
					want = s
				}
			}
			if s != want {
				fail("history:"+split+":"+h, "step %d after %v: cookie %q went to %q, expected %q (split in force: %q)", step, sc.Hist[:step+1], v, s, want, split)
				return
			}
		}
	}
	run.Class("history|" + strings.Join(sc.Hist[:min(len(sc.Hist), 6)], ","))
	run.Sample(map[string]any{"kind": "history", "history": sc.Hist})
}
