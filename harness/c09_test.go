package verifharness

// C09 Only healthy targets receive traffic, in fair rotation; probing continues at the interval.

import (
	"bufio"
	"context"
	"errors"
	"fmt"
	"math/rand/v2"
	"net"
	"net/http"
	"os"
	"sort"
	"strings"
	"sync"
	"syscall"
	"testing"
	"testing/synctest"
	"time"

	"github.com/basecamp/kamal-proxy/internal/server"
)

const (
	c09Interval = time.Second
	c09ProbeTO  = 400 * time.Millisecond
)

type c09Target struct {
	Name    string `json:"name"`
	Pattern string `json:"pattern"` // ok | flap | failwin | slowwin | refusewin | closewin
	A       int    `json:"a"`
	B       int    `json:"b"`
}

func (t c09Target) kind(n int) string {
	if n == 0 {
		return "ok"
	}
	in := n >= t.A && n < t.B
	switch t.Pattern {
	case "flap":
		if (n/t.A)%2 == 1 {
			return "500"
		}
	case "failwin":
		if in {
			return "500"
		}
	case "slowwin":
		if in {
			return "slow"
		}
	case "refusewin":
		if in {
			return "refuse"
		}
	case "closewin":
		if in {
			return "close"
		}
	}
	return "ok"
}

func (t c09Target) script() func(n int, at time.Duration) ProbeAct {
	return func(n int, at time.Duration) ProbeAct {
		switch t.kind(n) {
		case "500":
			return ProbeAct{Status: 500}
		case "slow":
			return ProbeAct{Status: 200, Delay: c09ProbeTO + 300*time.Millisecond + OffTarget}
		case "refuse":
			return ProbeAct{Refuse: true}
		case "close":
			return ProbeAct{Close: true}
		}
		return ProbeAct{Status: 200}
	}
}

type c09Burst struct {
	K     int  `json:"interval"`
	N     int  `json:"n"`
	Conc  bool `json:"concurrent"`
	Pause bool `json:"pause_before"` // a pause whose drain spans the probe of interval K, resumed just before the burst
}

type c09Scenario struct {
	Idx     int         `json:"idx"`
	Storm   bool        `json:"storm,omitempty"` // unjudged requests exactly at the probe ticks add lock contention
	Targets []c09Target `json:"targets"`
	Bursts  []c09Burst  `json:"bursts"`
	Horizon int         `json:"horizon_intervals"`
	// FailedRedeploys: intervals in which a redeploy of the service to a target that never becomes
	// healthy is issued and fails (it must change nothing: probing and rotation go on as before)
	FailedRedeploys []int `json:"failed_redeploys,omitempty"`
}

func c09Gen(rng *rand.Rand, idx int) c09Scenario {
	if idx%10 == 9 {
		// flap storm: every target changes state at every probe tick, all at the same instant, so
		// that their state-change notifications run concurrently; requests between all ticks
		sc := c09Scenario{Idx: idx, Horizon: 120, Storm: true}
		for i := 0; i < 4+rng.IntN(3); i++ {
			sc.Targets = append(sc.Targets, c09Target{Name: fmt.Sprintf("h%d-t%d:80", idx%5, i), Pattern: "flap", A: 1})
		}
		for k := 1; k < sc.Horizon; k++ {
			sc.Bursts = append(sc.Bursts, c09Burst{K: k, N: 2 + rng.IntN(3), Conc: k%3 == 0})
		}
		sc.FailedRedeploys = []int{2 + rng.IntN(20)}
		return sc
	}
	sc := c09Scenario{Idx: idx, Horizon: 14 + rng.IntN(30)}
	nt := 1 + rng.IntN(5)
	for i := 0; i < nt; i++ {
		t := c09Target{Name: fmt.Sprintf("h%d-t%d:80", idx%5, i), Pattern: pick(rng, []string{"ok", "ok", "flap", "failwin", "failwin", "slowwin", "refusewin", "closewin"})}
		switch t.Pattern {
		case "flap":
			t.A = 1 + rng.IntN(5)
		case "ok":
		default:
			t.A = 1 + rng.IntN(sc.Horizon-4)
			t.B = t.A + 1 + rng.IntN(6)
		}
		sc.Targets = append(sc.Targets, t)
	}
	if rng.IntN(6) == 0 { // everything fails for a while, staggered recovery
		a := 2 + rng.IntN(5)
		for i := range sc.Targets {
			sc.Targets[i].Pattern, sc.Targets[i].A, sc.Targets[i].B = "failwin", a, a+2+i+rng.IntN(3)
		}
	}
	for k := 1; k < sc.Horizon; k++ {
		switch rng.IntN(5) {
		case 0:
		case 1:
			sc.Bursts = append(sc.Bursts, c09Burst{K: k, N: 2 + rng.IntN(39), Conc: true})
		default:
			b := c09Burst{K: k, N: 1 + rng.IntN(9)}
			if rng.IntN(6) == 0 && k >= 2 {
				b.Pause = true
				// the pause starts 700ms before interval k: no burst may run in interval k-1
				if n := len(sc.Bursts); n > 0 && sc.Bursts[n-1].K == k-1 {
					sc.Bursts = sc.Bursts[:n-1]
				}
			}
			sc.Bursts = append(sc.Bursts, b)
		}
	}
	if rng.IntN(3) == 0 {
		for i := 0; i < 1+rng.IntN(3); i++ {
			sc.FailedRedeploys = append(sc.FailedRedeploys, 1+rng.IntN(sc.Horizon/2))
		}
	}
	return sc
}

func TestC09(t *testing.T) {
	run := NewRun(t, "C09")
	defer run.Finish()
	n := run.N(300, 20000)
	for i := 0; i < n; i++ {
		sc := c09Gen(run.Rand(i), i)
		if !run.Mine(i, sc) {
			continue
		}
		synctest.Test(t, func(t *testing.T) { c09Run(t, run, sc) })
	}
	for k := 0; k < run.N(16, 400); k++ {
		desc := map[string]any{"idx": k, "kind": "probes-slower-than-the-interval-within-the-timeout"}
		if !run.Mine(n+k, desc) {
			continue
		}
		synctest.Test(t, func(t *testing.T) { c09Lag(t, run, k, run.Rand(n+k)) })
	}
	for k := 0; k < run.N(8, 200); k++ {
		desc := map[string]any{"idx": k, "kind": "a-slow-probe-overtaken-by-failing-ones"}
		if !run.Mine(n+1000+k, desc) {
			continue
		}
		synctest.Test(t, func(t *testing.T) { c09Stale(t, run, k, run.Rand(n+1000+k)) })
	}
	for k := 0; k < run.N(6, 120); k++ {
		desc := map[string]any{"idx": k, "kind": "restart-while-a-target-is-failing"}
		if !run.Mine(n+2000+k, desc) {
			continue
		}
		synctest.Test(t, func(t *testing.T) { c09Restart(t, run, k, desc) })
	}
	for k := 0; k < run.N(40, 2000); k++ {
		sc := c09GoneGen(run.Rand(n+3000+k), k)
		if !run.Mine(n+3000+k, sc) {
			continue
		}
		synctest.Test(t, func(t *testing.T) { c09Gone(t, run, sc) })
	}
}

// c09Restart: "after deployment every target keeps being probed at the configured interval" - also
// when the proxy that probes is one that read the deployment from its state file. The proxy is
// restarted while one target (or every target) fails its probes; the failing ones recover a while
// later. After the restart: a target whose latest probe failed gets nothing, every target is probed
// throughout, and one that recovers is used again.
func c09Restart(t *testing.T, run *Run, idx int, desc any) {
	to := DefTO
	to.HealthCheckConfig.Interval = 200 * time.Millisecond
	to.HealthCheckConfig.Timeout = 700 * time.Millisecond
	nt := 2 + idx%2
	allFail := idx%3 == 2
	failFor := 8 + idx%5 // probes (after the restart) that fail before the target recovers
	names := []string{}
	for i := 0; i < nt; i++ {
		names = append(names, fmt.Sprintf("rs%d-t%d:80", idx%5, i))
	}
	w := NewWorld(t, WorldOpt{})
	run.Eval()
	for _, n := range names {
		w.AddTarget(n, nil)
	}
	if c := w.Deploy("svc", names, DefSO, to, 5*time.Second, time.Second); c.Err != "" {
		run.Inconclusive("setup failed: %s", c.Err)
		w.Close()
		return
	}
	dir := w.CopyState()
	w.Close()
	w = NewWorld(t, WorldOpt{StateDir: dir})
	defer w.Close()
	failing := map[string]bool{}
	for i, n := range names {
		if allFail || i == 1 {
			failing[n] = true
			kind := (idx + i) % 3
			w.AddTarget(n, func(k int, at time.Duration) ProbeAct {
				if k < failFor {
					switch kind {
					case 0:
						return ProbeAct{Status: 500}
					case 1:
						return ProbeAct{Refuse: true}
					}
					return ProbeAct{Status: 200, Delay: time.Second + OffTarget} // slower than the timeout
				}
				return ProbeAct{Status: 200}
			})
		} else {
			w.AddTarget(n, nil)
		}
	}
	t0 := w.Now()
	if err := w.Router.RestoreLastSavedState(); err != nil {
		run.Violate("restore-failed", fmt.Sprintf("RestoreLastSavedState: %v", err), desc, nil)
		return
	}
	horizon := 12 * time.Second
	for k := 0; time.Duration(k)*50*time.Millisecond < horizon; k++ {
		w.GoReq(t0+time.Second+time.Duration(k)*50*time.Millisecond+OffArrival, Req{ID: fmt.Sprintf("rs%d", k), Host: "c09.example", Path: "/s"})
	}
	w.Wait()
	tEnd := t0 + time.Second + horizon
	logs := map[string][]ProbeRec{}
	for _, n := range names {
		logs[n] = w.Target(n).ProbeLog()
		// probed throughout: no gap of more than interval + timeout + slack between probe starts
		last := t0
		for _, p := range logs[n] {
			if p.Start-last > 3*to.HealthCheckConfig.Interval+to.HealthCheckConfig.Timeout {
				break
			}
			last = p.Start
		}
		if tEnd-last > 3*to.HealthCheckConfig.Interval+to.HealthCheckConfig.Timeout {
			run.Violate("not-probed-after-restart", fmt.Sprintf("target %s was last probed at %v (restart at %v, %d probes in all); requests were served until %v with a probe interval of %v", n, last, t0, len(logs[n]), tEnd, to.HealthCheckConfig.Interval), desc, func() []string { return w.Trace(120) })
			return
		}
	}
	verdict := func(n string, at time.Duration) (known, healthy, tie bool) {
		var latest *ProbeRec
		pl := logs[n]
		for i := range pl {
			p := &pl[i]
			if !p.Ended && p.Start+to.HealthCheckConfig.Timeout > at {
				continue
			}
			end := p.End
			if !p.Ended || p.End-p.Start > to.HealthCheckConfig.Timeout {
				end = p.Start + to.HealthCheckConfig.Timeout
			}
			if absDur(end-at) < 5*time.Millisecond {
				tie = true
			}
			if end < at && (latest == nil || p.Start > latest.Start) {
				latest = p
			}
		}
		if latest == nil {
			return false, false, tie
		}
		return true, latest.Passed(to.HealthCheckConfig.Timeout), tie
	}
	usedAfterRecovery := map[string]bool{}
	for _, r := range w.RespLog() {
		anyTie, nHealthy, nKnown := false, 0, 0
		for _, n := range names {
			k, h, tie := verdict(n, r.Sent)
			anyTie = anyTie || tie
			if k {
				nKnown++
			}
			if k && h {
				nHealthy++
			}
		}
		if anyTie || nKnown < len(names) {
			continue
		}
		if r.Status == 200 && r.Target != "" {
			if _, h, _ := verdict(r.Target, r.Sent); !h {
				run.Violate("sent-to-unhealthy-target:after-restart", fmt.Sprintf("request %s at %v (restart at %v) was forwarded to %s, whose latest probe had failed", r.ID, r.Sent, t0, r.Target), desc, func() []string { return w.Trace(120) })
				return
			}
			if failing[r.Target] {
				usedAfterRecovery[r.Target] = true
			}
		}
		if nHealthy > 0 && r.Status != 200 {
			run.Violate(fmt.Sprintf("status-%d-with-healthy-targets:after-restart", r.Status), fmt.Sprintf("request %s at %v got %d although %d targets had a successful latest probe", r.ID, r.Sent, r.Status, nHealthy), desc, func() []string { return w.Trace(120) })
			return
		}
		if nHealthy == 0 && r.Status != 503 {
			run.Violate(fmt.Sprintf("no-healthy-target-but-status-%d:after-restart", r.Status), fmt.Sprintf("request %s at %v got status %d (target %q) although the latest probe of every target had failed", r.ID, r.Sent, r.Status, r.Target), desc, func() []string { return w.Trace(120) })
			return
		}
	}
	for n := range failing {
		if !usedAfterRecovery[n] {
			run.Violate("recovered-target-not-used:after-restart", fmt.Sprintf("target %s failed its first %d probes after the restart and passed every later one, but never received a request again in %v", n, failFor, horizon), desc, func() []string { return w.Trace(120) })
			return
		}
	}
	run.Class(fmt.Sprintf("restart|targets=%d|all-failing=%v|fail-for=%d", nt, allFail, failFor))
}

// c09Lag: the probe timeout is longer than the probe interval (as with the defaults, 5s and 1s), and
// after deployment a target's probes take longer than the interval but less than the timeout. Those
// probes pass: the target stays in rotation and gets its share.
func c09Lag(t *testing.T, run *Run, idx int, rng *rand.Rand) {
	w := NewWorld(t, WorldOpt{})
	defer w.Close()
	run.Eval()
	to := DefTO
	to.HealthCheckConfig.Interval = 300 * time.Millisecond
	to.HealthCheckConfig.Timeout = time.Second
	lag := time.Duration(400+rng.IntN(400))*time.Millisecond + OffTarget
	nt := 1 + rng.IntN(3)
	nlag := 1 + rng.IntN(nt)
	var names []string
	for i := 0; i < nt; i++ {
		name := fmt.Sprintf("lag%d-t%d:80", idx%5, i)
		names = append(names, name)
		slow := i < nlag
		w.AddTarget(name, func(n int, at time.Duration) ProbeAct {
			if slow && n >= 1 {
				return ProbeAct{Status: 200, Delay: lag}
			}
			return ProbeAct{Status: 200}
		})
	}
	if c := w.Deploy("svc", names, DefSO, to, 5*time.Second, time.Second); c.Err != "" {
		run.Inconclusive("setup failed: %s", c.Err)
		return
	}
	time.Sleep(4 * time.Second)
	per := map[string]int{}
	nreq := 6 * nt
	for k := 0; k < nreq; k++ {
		r := w.Do(Req{ID: fmt.Sprintf("l%d", k), Host: "c09.example", Path: "/l"})
		if r.Status != 200 {
			run.Violate("lagging-probe-treated-as-failed", fmt.Sprintf("probe interval 300ms, timeout 1s, %d of %d targets answer their probes after %v: request %d got status %d", nlag, nt, lag, k, r.Status), map[string]any{"idx": idx, "targets": nt, "lagging": nlag, "lag": lag}, func() []string { return w.Trace(100) })
			return
		}
		per[r.Target]++
		time.Sleep(20 * time.Millisecond)
	}
	for _, name := range names {
		if per[name] != nreq/nt {
			run.Violate("unfair-rotation:lagging-probes", fmt.Sprintf("probe interval 300ms, timeout 1s, %d of %d targets answer their probes (200) after %v: %d sequential requests were spread %v, expected %d each", nlag, nt, lag, nreq, per, nreq/nt), map[string]any{"idx": idx, "targets": nt, "lagging": nlag, "lag": lag}, func() []string { return w.Trace(100) })
			return
		}
	}
	run.Class(fmt.Sprintf("lag|nt%d|lagging%d", nt, nlag))
}

// c09Stale: one probe answers late (a 200 after 500ms, with a probe interval of 200ms and a timeout
// of 5s), every probe after it fails at once. "A target whose latest probe failed receives no new
// requests until a later probe succeeds": whatever the prober does while the slow probe is out,
// the 200 of an *earlier* probe is not a later probe succeeding.
func c09Stale(t *testing.T, run *Run, idx int, rng *rand.Rand) {
	w := NewWorld(t, WorldOpt{})
	defer w.Close()
	run.Eval()
	to := DefTO
	to.HealthCheckConfig.Interval = 200 * time.Millisecond
	to.HealthCheckConfig.Timeout = 5 * time.Second
	slow := time.Duration(450+rng.IntN(300))*time.Millisecond + OffTarget
	name := fmt.Sprintf("stale%d-t0:80", idx%5)
	w.AddTarget(name, func(n int, at time.Duration) ProbeAct {
		switch {
		case n == 0:
			return ProbeAct{Status: 200}
		case n == 1:
			return ProbeAct{Status: 200, Delay: slow}
		}
		return ProbeAct{Status: 500}
	})
	if c := w.Deploy("svc", []string{name}, DefSO, to, 5*time.Second, time.Second); c.Err != "" {
		run.Inconclusive("setup failed: %s", c.Err)
		return
	}
	t0 := w.Cmds[0].Issue
	for k := 0; k < 100; k++ {
		w.GoReq(t0+100*time.Millisecond+time.Duration(k)*20*time.Millisecond+OffArrival, Req{ID: fmt.Sprintf("st%d", k), Host: "c09.example", Path: "/s"})
	}
	w.Wait()
	pl := w.Target(name).ProbeLog()
	for _, r := range w.RespLog() {
		// the verdict of the latest-*started* probe among those completed before the request
		var latest *ProbeRec
		tie := false
		for i := range pl {
			p := &pl[i]
			if !p.Ended {
				continue
			}
			if absDur(p.End-r.Sent) < 5*time.Millisecond {
				tie = true
			}
			if p.End < r.Sent && (latest == nil || p.Start > latest.Start) {
				latest = p
			}
		}
		if tie || latest == nil {
			continue
		}
		healthy := latest.Passed(to.HealthCheckConfig.Timeout)
		if !healthy && r.Status == 200 {
			run.Violate("sent-to-unhealthy-target:stale-probe-result", fmt.Sprintf("request %s at %v was forwarded although the latest probe (started %v, ended %v) had failed; an earlier, slower probe (%v) had answered 200 meanwhile", r.ID, r.Sent, latest.Start, latest.End, slow), map[string]any{"idx": idx, "slow_probe": slow}, func() []string { return w.Trace(100) })
			return
		}
		if healthy && r.Status != 200 {
			run.Violate("refused-with-healthy-target:stale", fmt.Sprintf("request %s at %v got %d although the latest probe (started %v) had succeeded", r.ID, r.Sent, r.Status, latest.Start), map[string]any{"idx": idx, "slow_probe": slow}, func() []string { return w.Trace(100) })
			return
		}
	}
	run.Class("stale-probe")
}

type c09Done struct {
	at time.Duration
	ok bool
}

func c09Run(t *testing.T, run *Run, sc c09Scenario) {
	w := NewWorld(t, WorldOpt{})
	defer w.Close()
	const svc = "svc"
	to := DefTO
	to.HealthCheckConfig.Interval = c09Interval
	to.HealthCheckConfig.Timeout = c09ProbeTO
	var names []string
	for _, tg := range sc.Targets {
		w.AddTarget(tg.Name, tg.script())
		names = append(names, tg.Name)
	}
	if c := w.Deploy(svc, names, DefSO, to, 5*time.Second, time.Second); c.Err != "" {
		run.Inconclusive("setup failed: %s", c.Err)
		return
	}
	t0 := w.Cmds[0].Issue // probes of every target start here
	type sent struct {
		id    string
		burst int
	}
	var order []sent // sequential requests in issue order; concurrent ones grouped by burst
	pauses := [][2]time.Duration{}
	for bi, b := range sc.Bursts {
		bi, b := bi, b
		base := t0 + time.Duration(b.K)*c09Interval
		if b.Pause {
			// slow request keeps the drain open from base-700ms across the probe at `base` (and its
			// timeout at base+400ms); resume before the burst
			slowID := fmt.Sprintf("slow%d", bi)
			w.GoReq(base-800*time.Millisecond+OffArrival, Req{ID: slowID, Host: "c09.example", Path: "/slow", Lat: 1300*time.Millisecond + OffTarget})
			w.At(base-700*time.Millisecond, func() { w.Pause(svc, 30*time.Second, 100*time.Second) })
			w.At(base+520*time.Millisecond, func() { w.Resume(svc) })
			pauses = append(pauses, [2]time.Duration{base - 800*time.Millisecond, base + 520*time.Millisecond})
		}
		if b.Conc {
			for j := 0; j < b.N; j++ {
				id := fmt.Sprintf("c%d-%d", bi, j)
				order = append(order, sent{id, bi})
				w.GoReq(base+600*time.Millisecond+OffArrival, Req{ID: id, Host: "c09.example", Path: "/c"})
			}
		} else {
			for j := 0; j < b.N; j++ {
				order = append(order, sent{fmt.Sprintf("s%d-%d", bi, j), bi})
			}
			w.At(base+550*time.Millisecond+OffArrival, func() {
				for j := 0; j < b.N; j++ {
					w.SleepUntil(base + 550*time.Millisecond + time.Duration(j)*40*time.Millisecond + OffArrival)
					w.Do(Req{ID: fmt.Sprintf("s%d-%d", bi, j), Host: "c09.example", Path: "/s"})
				}
			})
		}
	}
	failing := map[string]bool{}
	for i, k := range sc.FailedRedeploys {
		bad := fmt.Sprintf("bad%d-%d:80", sc.Idx%5, i)
		w.AddTarget(bad, func(n int, at time.Duration) ProbeAct { return ProbeAct{Status: 500} })
		name := fmt.Sprintf("failed-redeploy-%d", i)
		failing[name] = true
		w.At(t0+time.Duration(k)*c09Interval+100*time.Millisecond+OffArrival, func() {
			w.Cmd(name, bad, func() error {
				return w.Router.DeployService(svc, []string{bad}, DefSO, to, 200*time.Millisecond, time.Second)
			})
		})
	}
	if sc.Storm {
		// noise: requests fired at the very instants the probes complete (never judged: they are
		// ties by definition) keep the load balancer's lock busy while the state changes are applied
		for k := 1; k < sc.Horizon; k++ {
			for j := 0; j < 16; j++ {
				w.GoReq(t0+time.Duration(k)*c09Interval, Req{ID: fmt.Sprintf("n%d-%d", k, j), Host: "c09.example", Path: "/n"})
			}
		}
	}
	w.SleepUntil(t0 + time.Duration(sc.Horizon)*c09Interval + 100*time.Millisecond)
	w.Wait()
	tEnd := w.Now()

	// ---------- oracle ----------
	run.Eval()
	fail := func(sig, format string, a ...any) {
		run.Violate(sig, fmt.Sprintf(format, a...), sc, func() []string { return w.Trace(400) })
	}
	for _, c := range w.Cmds {
		if failing[c.Name] {
			if c.Err == "" {
				fail("expected-failure-succeeded", "redeploy to a target that never passes a probe succeeded")
				return
			}
			run.Count("failed_redeploys", 1)
			continue
		}
		if c.Err != "" || c.Panic != "" {
			fail("command-failed", "%s failed: %s %s", c.Name, c.Err, c.Panic)
			return
		}
	}
	// probe completions per target, from the targets' logs
	comp := map[string][]c09Done{}
	for _, name := range names {
		pl := w.Target(name).ProbeLog()
		run.Count("probes_observed", len(pl))
		var prevStart, prevEnd time.Duration
		for i, p := range pl {
			ok := p.Passed(c09ProbeTO)
			at := p.End
			if p.Status >= 200 && p.Status <= 299 && !ok { // slower than the probe timeout: the prober gave up
				at = p.Start + c09ProbeTO
			}
			if !p.Ended && p.Status != -1 {
				at = p.Start + c09ProbeTO
			}
			comp[name] = append(comp[name], c09Done{at, ok})
			// cadence
			if i == 0 {
				if !near(p.Start, t0) {
					fail("cadence:first-probe", "first probe of %s at %v, deployed at %v", name, p.Start, t0)
					return
				}
			} else {
				want := prevStart + c09Interval
				if prevEnd > want {
					want = prevEnd
				}
				if p.Start > want+Eps {
					fail("cadence:gap", "probe #%d of %s started at %v; previous started %v and completed %v (interval %v)", i, name, p.Start, prevStart, prevEnd, c09Interval)
					return
				}
				if p.Start < prevStart+c09Interval-Eps {
					fail("cadence:too-fast", "probe #%d of %s started at %v, only %v after the previous one", i, name, p.Start, p.Start-prevStart)
					return
				}
			}
			prevStart, prevEnd = p.Start, at
		}
		if len(pl) == 0 || tEnd-prevStart > c09Interval+c09ProbeTO+Eps {
			fail("cadence:stopped", "target %s: last probe started at %v, scenario ended at %v", name, prevStart, tEnd)
			return
		}
	}
	// healthy(T, t): latest completed probe before t succeeded; tie when a completion is within eps of t
	healthyAt := func(name string, t time.Duration) (ok bool, tie bool) {
		for _, d := range comp[name] {
			if absDur(d.at-t) < Eps {
				return false, true
			}
			if d.at < t {
				ok = d.ok
			}
		}
		return ok, false
	}
	resps := map[string]Resp{}
	for _, r := range w.RespLog() {
		resps[r.ID] = r
	}
	type obs struct {
		id     string
		target string
		hkey   string
		burst  int
		conc   bool
	}
	var seq []obs
	for _, s := range order {
		r, ok := resps[s.id]
		if !ok {
			run.Inconclusive("no record for %s", s.id)
			return
		}
		var H []string
		tie := false
		for _, name := range names {
			h, ti := healthyAt(name, r.Sent)
			tie = tie || ti
			if h {
				H = append(H, name)
			}
		}
		if tie {
			run.Count("ties_skipped", 1)
			seq = append(seq, obs{hkey: "tie"})
			continue
		}
		hkey := strings.Join(H, ",")
		if len(H) == 0 {
			if r.Status != 503 {
				fail("forwarded-with-no-healthy-target", "request %s at %v: no target's latest probe succeeded, yet status=%d target=%q", s.id, r.Sent, r.Status, r.Target)
				return
			}
			run.Count("503_when_none_healthy", 1)
			seq = append(seq, obs{hkey: "none"})
			continue
		}
		if r.Status != 200 {
			fail(fmt.Sprintf("status-%d-with-healthy-targets", r.Status), "request %s at %v got %d although %v have a successful latest probe", s.id, r.Sent, r.Status, H)
			return
		}
		if !contains(H, r.Target) {
			fail("sent-to-unhealthy-target", "request %s at %v was served by %s whose latest completed probe failed (healthy: %v)", s.id, r.Sent, r.Target, H)
			return
		}
		seq = append(seq, obs{s.id, r.Target, hkey, s.burst, sc.Bursts[s.burst].Conc})
	}
	run.Count("requests_checked", len(seq))
	// rotation: maximal runs with constant healthy set (a pause/resume or a tie breaks a run)
	inPause := func(bi int) bool { return sc.Bursts[bi].Pause }
	checkWindow := func(win []obs, k int, what string) bool {
		cnt := map[string]int{}
		for _, o := range win {
			cnt[o.target]++
		}
		lo, hi := len(win)/k, (len(win)+k-1)/k
		for _, name := range strings.Split(win[0].hkey, ",") {
			if cnt[name] < lo || cnt[name] > hi {
				fail("unfair-rotation", "%s: %d consecutive requests over healthy set {%s} gave %s %d requests (allowed %d..%d); distribution %v", what, len(win), win[0].hkey, name, cnt[name], lo, hi, cnt)
				return false
			}
		}
		return true
	}
	i := 0
	for i < len(seq) {
		if seq[i].hkey == "tie" || seq[i].hkey == "none" {
			i++
			continue
		}
		j := i
		for j+1 < len(seq) && seq[j+1].hkey == seq[i].hkey && !(seq[j+1].burst != seq[j].burst && inPause(seq[j+1].burst)) {
			j++
		}
		runObs := seq[i : j+1]
		k := len(strings.Split(seq[i].hkey, ","))
		if k >= 1 && len(runObs) >= 2 {
			run.Count("rotation_runs", 1)
			// whole run, every concurrent batch, and every window of each sequential segment
			if !checkWindow(runObs, k, "whole run") {
				return
			}
			a := 0
			for a < len(runObs) {
				b := a
				for b+1 < len(runObs) && runObs[b+1].conc == runObs[a].conc && (!runObs[a].conc || runObs[b+1].burst == runObs[a].burst) {
					b++
				}
				seg := runObs[a : b+1]
				if runObs[a].conc {
					if !checkWindow(seg, k, "concurrent batch") {
						return
					}
				} else {
					for x := 0; x < len(seg); x++ {
						for y := x + 1; y <= len(seg); y++ {
							if !checkWindow(seg[x:y], k, "sequential window") {
								return
							}
						}
					}
				}
				a = b + 1
			}
			if k >= 2 {
				run.Class(fmt.Sprintf("k%d/%d|run%d", k, len(names), min(len(runObs), 12)))
			}
		}
		i = j + 1
	}
	var pats []string
	for _, tg := range sc.Targets {
		pats = append(pats, tg.Pattern)
	}
	sort.Strings(pats)
	np := 0
	for _, b := range sc.Bursts {
		if b.Pause {
			np++
		}
	}
	run.Class(fmt.Sprintf("patterns:%s|pauses=%v", strings.Join(pats, ","), np > 0))
	run.Sample(map[string]any{"scenario": sc, "requests": len(seq), "pauses": len(pauses)})
}

// ---------- targets that go away between probes, under traffic ----------
//
// A deployed target stops taking connections at an arbitrary instant *between* two probes (its
// container died, or it is up but hangs up on everything) while clients keep sending requests, so
// that the request path meets the dead target before the prober does; later it may come back, again
// at an arbitrary instant. Both its probes and the proxied connections fail while it is away. The
// other targets may at the same time fail probes while still serving (the existing families' kind).
//
// What the property says about it: until the first probe after the death completes the target's
// latest probe is a success, so it may still be handed requests (those are answered 502 by the
// proxy and are not judged); from the first failed probe on it "receives no new requests until a
// later probe succeeds" - no connection attempt and no request may arrive at it - the remaining
// healthy targets share the requests in strict rotation, and with none left the answer is 503.

type c09Outage struct {
	Target int           `json:"target"`
	Die    time.Duration `json:"die"`  // offset from the deployment
	Back   time.Duration `json:"back"` // 0: never comes back
	Mode   string        `json:"mode"` // refuse: connections refused | close: accepted, request read, hung up
}

type c09Batch struct {
	At time.Duration `json:"at"`
	N  int           `json:"n"`
}

type c09GoneScenario struct {
	Idx     int           `json:"idx"`
	Kind    string        `json:"kind"`
	Targets []c09Target   `json:"targets"` // probe scripts of targets that stay up: ok | flap | failwin
	Outages []c09Outage   `json:"outages"`
	Period  time.Duration `json:"client_period"`
	Batches []c09Batch    `json:"batches"`
	Horizon int           `json:"horizon_intervals"`
}

func c09GoneGen(rng *rand.Rand, idx int) c09GoneScenario {
	sc := c09GoneScenario{Idx: idx, Kind: "targets-going-away-between-probes-under-traffic", Horizon: 10 + rng.IntN(11)}
	sc.Period = time.Duration(pick(rng, []int{40, 70, 110, 170, 230})) * time.Millisecond
	nt := 1 + rng.IntN(4)
	horizon := time.Duration(sc.Horizon) * c09Interval
	for i := 0; i < nt; i++ {
		tg := c09Target{Name: fmt.Sprintf("gone%d-t%d:80", idx%5, i), Pattern: "ok"}
		switch rng.IntN(8) {
		case 0:
			tg.Pattern, tg.A = "flap", 1+rng.IntN(5)
		case 1:
			tg.Pattern, tg.A = "failwin", 1+rng.IntN(sc.Horizon-4)
			tg.B = tg.A + 1 + rng.IntN(6)
		}
		sc.Targets = append(sc.Targets, tg)
		if i > 0 && rng.IntN(5) < 2 {
			continue // this one never goes away
		}
		// one to three outages, one after the other, at instants anywhere inside the probe intervals
		at := c09Interval
		for o := 0; o < 1+rng.IntN(3); o++ {
			die := at + time.Duration(rng.IntN(int(5*c09Interval/time.Millisecond)))*time.Millisecond
			if die > horizon-3*c09Interval {
				break
			}
			out := c09Outage{Target: i, Die: die, Mode: pick(rng, []string{"refuse", "refuse", "close"})}
			if rng.IntN(5) > 0 {
				// short ones end before any probe has seen them, long ones span several probes
				out.Back = die + time.Duration(200+rng.IntN(5000))*time.Millisecond
			}
			sc.Outages = append(sc.Outages, out)
			if out.Back == 0 {
				break
			}
			at = out.Back + time.Duration(1+rng.IntN(3000))*time.Millisecond
		}
	}
	if rng.IntN(4) == 0 && nt > 1 {
		// every target goes away within the same interval and stays away for a while: the last
		// healthy one dies under traffic
		sc.Outages = nil
		a := time.Duration(1+rng.IntN(sc.Horizon-8)) * c09Interval
		for i := 0; i < nt; i++ {
			die := a + time.Duration(110+rng.IntN(780))*time.Millisecond
			sc.Outages = append(sc.Outages, c09Outage{Target: i, Die: die, Back: die + time.Duration(1500+rng.IntN(3500))*time.Millisecond, Mode: pick(rng, []string{"refuse", "refuse", "close"})})
		}
	}
	for k := 1; k < sc.Horizon; k++ {
		if rng.IntN(3) == 0 {
			sc.Batches = append(sc.Batches, c09Batch{At: time.Duration(k)*c09Interval + time.Duration(110+rng.IntN(780))*time.Millisecond, N: 2 + rng.IntN(15)})
		}
	}
	return sc
}

type c09Addr string

func (a c09Addr) Network() string { return "tcp" }
func (a c09Addr) String() string  { return string(a) }

type c09Arrival struct {
	at   time.Duration
	what string
}

func c09Gone(t *testing.T, run *Run, sc c09GoneScenario) {
	w := NewWorld(t, WorldOpt{})
	defer w.Close()
	const svc = "svc"
	to := DefTO
	to.HealthCheckConfig.Interval = c09Interval
	to.HealthCheckConfig.Timeout = c09ProbeTO

	// the fake network reports a refused connection the way the real one does: a *net.OpError of
	// the dial operation wrapping ECONNREFUSED (the shared engine's own error value is a plain one);
	// every refused attempt is logged as an arrival at that address
	var mu sync.Mutex
	arrivals := map[string][]c09Arrival{} // by dial address
	inner := w.dialProxy
	dial := func(ctx context.Context, network, addr string) (net.Conn, error) {
		c, err := inner(ctx, network, addr)
		var re refusedErr
		if err != nil && errors.As(err, &re) {
			if !w.isDone() {
				mu.Lock()
				arrivals[addr] = append(arrivals[addr], c09Arrival{w.Now(), "connection attempt (refused)"})
				mu.Unlock()
			}
			return nil, &net.OpError{Op: "dial", Net: network, Addr: c09Addr(addr), Err: os.NewSyscallError("connect", syscall.ECONNREFUSED)}
		}
		return c, err
	}
	server.VerifDial.Store(&dial)

	var t0 time.Duration
	var started bool
	// mode of the outage target i is in at the offset `at` from the deployment ("" when it is up)
	// instants of the harness: clients on ms+333us (sequential) and ms+666us (batches), targets
	// going away and coming back on ms+500us; probes complete on the interval lattice
	outages := make([]c09Outage, len(sc.Outages))
	for k, o := range sc.Outages {
		o.Die += 500 * time.Microsecond
		if o.Back > 0 {
			o.Back += 500 * time.Microsecond
		}
		outages[k] = o
	}
	away := func(i int, at time.Duration) string {
		for _, o := range outages {
			if o.Target == i && at >= o.Die && (o.Back == 0 || at < o.Back) {
				return o.Mode
			}
		}
		return ""
	}
	var names []string
	fts := map[string]*FakeTarget{}
	for i, tg := range sc.Targets {
		i, tg := i, tg
		script := tg.script()
		ft := w.AddTarget(tg.Name, func(n int, at time.Duration) ProbeAct {
			mu.Lock()
			st, base := started, t0
			mu.Unlock()
			if st {
				switch away(i, at-base) {
				case "refuse":
					return ProbeAct{Refuse: true}
				case "close":
					return ProbeAct{Close: true}
				}
			}
			return script(n, at)
		})
		ft.Handler = func(ft *FakeTarget, c net.Conn, br *bufio.Reader, req *http.Request, body []byte) bool {
			mu.Lock()
			st, base := started, t0
			mu.Unlock()
			if st && away(i, w.Now()-base) == "close" {
				ft.end(ft.newReq(req, body), "closed")
				return false
			}
			return ft.defaultHandle(c, br, req, body)
		}
		fts[tg.Name] = ft
		names = append(names, tg.Name)
	}
	if c := w.Deploy(svc, names, DefSO, to, 5*time.Second, time.Second); c.Err != "" {
		run.Inconclusive("setup failed: %s", c.Err)
		return
	}
	mu.Lock()
	t0, started = w.Cmds[0].Issue, true // probes of every target start here
	mu.Unlock()
	for _, o := range outages {
		o := o
		ft := fts[sc.Targets[o.Target].Name]
		w.At(t0+o.Die, func() {
			if o.Mode == "refuse" {
				ft.Kill() // open connections cut, new ones refused
				return
			}
			// hangs up on everything: the connections it holds go too
			ft.mu.Lock()
			cs := ft.conns
			ft.conns = nil
			ft.mu.Unlock()
			for _, c := range cs {
				c.Close()
			}
		})
		if o.Back > 0 && o.Mode == "refuse" {
			w.At(t0+o.Back, func() {
				ft.mu.Lock()
				ft.RefuseProxy = false
				ft.mu.Unlock()
			})
		}
	}
	end := t0 + time.Duration(sc.Horizon)*c09Interval
	type sentRec struct {
		id    string
		batch int // -1: the sequential client
	}
	var order []sentRec
	nseq := 0
	for s := t0 + 200*time.Millisecond; s < end; s += sc.Period {
		order = append(order, sentRec{fmt.Sprintf("g%d", nseq), -1})
		nseq++
	}
	w.At(t0+200*time.Millisecond+OffArrival, func() {
		for j := 0; j < nseq; j++ {
			w.SleepUntil(t0 + 200*time.Millisecond + time.Duration(j)*sc.Period + OffArrival)
			w.Do(Req{ID: fmt.Sprintf("g%d", j), Host: "c09.example", Path: "/g"})
		}
	})
	for bi, b := range sc.Batches {
		for j := 0; j < b.N; j++ {
			id := fmt.Sprintf("gb%d-%d", bi, j)
			order = append(order, sentRec{id, bi})
			w.GoReq(t0+b.At+2*OffArrival, Req{ID: id, Host: "c09.example", Path: "/gb"})
		}
	}
	w.SleepUntil(end + 100*time.Millisecond)
	w.Wait()
	tEnd := w.Now()

	// ---------- oracle ----------
	run.Eval()
	fail := func(sig, format string, a ...any) {
		run.Violate(sig, fmt.Sprintf(format, a...), sc, func() []string { return w.Trace(400) })
	}
	// probe completions per target (every probe of this family is answered or refused at once)
	comp := map[string][]c09Done{}
	for _, name := range names {
		pl := w.Target(name).ProbeLog()
		run.Count("probes_observed", len(pl))
		var prevStart time.Duration
		for i, p := range pl {
			at := p.End
			if !p.Ended {
				at = p.Start + c09ProbeTO
			}
			comp[name] = append(comp[name], c09Done{at, p.Passed(c09ProbeTO)})
			if i > 0 && p.Start > prevStart+c09Interval+Eps {
				fail("cadence:gap", "probe #%d of %s started at %v, the previous one at %v (interval %v); the target goes away and comes back as the scenario says", i, name, p.Start, prevStart, c09Interval)
				return
			}
			prevStart = p.Start
		}
		if len(pl) == 0 || tEnd-prevStart > c09Interval+c09ProbeTO+Eps {
			fail("cadence:stopped", "target %s: last probe started at %v, scenario ended at %v", name, prevStart, tEnd)
			return
		}
	}
	healthyAt := func(name string, t time.Duration) (ok bool, tie bool) {
		for _, d := range comp[name] {
			if absDur(d.at-t) < Eps {
				return false, true
			}
			if d.at < t {
				ok = d.ok
			}
		}
		return ok, false
	}
	// 1. what arrives at a target: requests it read and connection attempts it refused
	hitBeforeProbe := false
	for i, name := range names {
		mu.Lock()
		arr := append([]c09Arrival(nil), arrivals[dialAddr(name)]...)
		mu.Unlock()
		for _, r := range w.Target(name).ReqLog() {
			arr = append(arr, c09Arrival{r.Recv, "request " + r.ID})
		}
		sort.Slice(arr, func(a, b int) bool { return arr[a].at < arr[b].at })
		for _, a := range arr {
			h, tie := healthyAt(name, a.at)
			if tie {
				continue
			}
			if !h {
				fail("sent-to-unhealthy-target:target-gone", "%s arrived at %s at %v (deployed at %v), whose latest completed probe had failed; the target was %s at that moment", a.what, name, a.at, t0, map[string]string{"": "up", "refuse": "refusing connections", "close": "hanging up on every connection"}[away(i, a.at-t0)])
				return
			}
			if away(i, a.at-t0) != "" {
				hitBeforeProbe = true
				run.Count("requests_at_a_dead_target_before_its_next_probe", 1)
			}
		}
	}
	// 2. the clients' side
	resps := map[string]Resp{}
	for _, r := range w.RespLog() {
		resps[r.ID] = r
	}
	type obs struct {
		target string
		hkey   string
		batch  int
	}
	var seq []obs
	sawNone, sawWindow := false, false
	// in the order they were sent (a batch is one instant)
	sort.SliceStable(order, func(a, b int) bool { return resps[order[a].id].Sent < resps[order[b].id].Sent })
	for _, s := range order {
		r, ok := resps[s.id]
		if !ok {
			run.Inconclusive("no record for %s", s.id)
			return
		}
		var H []string
		tie, window := false, false
		for i, name := range names {
			h, ti := healthyAt(name, r.Sent)
			tie = tie || ti
			if h {
				H = append(H, name)
				if away(i, r.Sent-t0) != "" {
					window = true // gone, and no probe has found out yet
				}
			}
		}
		switch {
		case tie:
			run.Count("ties_skipped", 1)
			seq = append(seq, obs{hkey: "tie"})
		case len(H) == 0:
			if r.Status != 503 {
				fail("forwarded-with-no-healthy-target:target-gone", "request %s at %v: no target's latest probe succeeded, yet status=%d target=%q", s.id, r.Sent, r.Status, r.Target)
				return
			}
			sawNone = true
			run.Count("503_when_none_healthy", 1)
			seq = append(seq, obs{hkey: "none"})
		case window:
			// a target of the healthy set is gone but its latest probe is still a success: the
			// request may have been handed to it (502); only an answer from a target that is not
			// in the set is wrong
			if r.Status == 200 && !contains(H, r.Target) {
				fail("sent-to-unhealthy-target", "request %s at %v was served by %s whose latest completed probe failed (healthy: %v)", s.id, r.Sent, r.Target, H)
				return
			}
			sawWindow = true
			run.Count("unjudged_between_death_and_next_probe", 1)
			seq = append(seq, obs{hkey: "window"})
		default:
			if r.Status != 200 {
				fail(fmt.Sprintf("status-%d-with-healthy-targets:target-gone", r.Status), "request %s at %v got %d although %v have a successful latest probe and are up", s.id, r.Sent, r.Status, H)
				return
			}
			if !contains(H, r.Target) {
				fail("sent-to-unhealthy-target", "request %s at %v was served by %s whose latest completed probe failed (healthy: %v)", s.id, r.Sent, r.Target, H)
				return
			}
			seq = append(seq, obs{r.Target, strings.Join(H, ","), s.batch})
		}
	}
	run.Count("requests_checked", len(seq))
	// 3. rotation: maximal runs of judged requests over a constant healthy set whose members are
	// all up; in a run, the whole run, every batch, and every window of each stretch of the
	// sequential client must give each member floor(n/k)..ceil(n/k)
	spread := func(win []obs, what string) bool {
		members := strings.Split(win[0].hkey, ",")
		k := len(members)
		cnt := map[string]int{}
		for _, o := range win {
			cnt[o.target]++
		}
		lo, hi := len(win)/k, (len(win)+k-1)/k
		for _, name := range members {
			if cnt[name] < lo || cnt[name] > hi {
				fail("unfair-rotation:target-gone", "%s: %d consecutive requests over healthy set {%s} gave %s %d requests (allowed %d..%d); distribution %v", what, len(win), win[0].hkey, name, cnt[name], lo, hi, cnt)
				return false
			}
		}
		return true
	}
	maxRun, maxK := 0, 0
	for i := 0; i < len(seq); {
		if seq[i].target == "" {
			i++
			continue
		}
		j := i
		for j+1 < len(seq) && seq[j+1].target != "" && seq[j+1].hkey == seq[i].hkey {
			j++
		}
		runObs := seq[i : j+1]
		i = j + 1
		if len(runObs) < 2 {
			continue
		}
		run.Count("rotation_runs", 1)
		members := strings.Split(runObs[0].hkey, ",")
		k := len(members)
		if !spread(runObs, "whole run") {
			return
		}
		for a := 0; a < len(runObs); {
			b := a
			for b+1 < len(runObs) && runObs[b+1].batch == runObs[a].batch {
				b++
			}
			seg := runObs[a : b+1]
			a = b + 1
			if seg[0].batch >= 0 {
				if !spread(seg, "concurrent batch") {
					return
				}
				continue
			}
			// prefix counts per member: every window [x,y) of the stretch
			pre := make([][]int, k)
			for m, name := range members {
				pre[m] = make([]int, len(seg)+1)
				for x, o := range seg {
					pre[m][x+1] = pre[m][x]
					if o.target == name {
						pre[m][x+1]++
					}
				}
			}
			for x := 0; x < len(seg); x++ {
				for y := x + 1; y <= len(seg); y++ {
					n := y - x
					for m := range members {
						if c := pre[m][y] - pre[m][x]; c < n/k || c > (n+k-1)/k {
							spread(seg[x:y], "sequential window")
							return
						}
					}
				}
			}
		}
		if k > maxK || (k == maxK && len(runObs) > maxRun) {
			maxK, maxRun = k, len(runObs)
		}
	}
	modes := map[string]bool{}
	forever := false
	for _, o := range sc.Outages {
		modes[o.Mode] = true
		forever = forever || o.Back == 0
	}
	var ms []string
	for m := range modes {
		ms = append(ms, m)
	}
	sort.Strings(ms)
	run.Class(fmt.Sprintf("gone|nt%d|modes=%s|hit-before-probe=%v|none-left=%v", len(names), strings.Join(ms, "+"), hitBeforeProbe, sawNone))
	run.Class(fmt.Sprintf("gone|outages=%d|for-good=%v|requests-between-death-and-probe=%v", min(len(sc.Outages), 3), forever, sawWindow))
	if maxK >= 2 {
		run.Class(fmt.Sprintf("gone|longest-run:k%d/%d|run%d", maxK, len(names), min(maxRun/10*10, 30)))
	}
	run.Sample(map[string]any{"scenario": sc, "requests": len(seq)})
}
