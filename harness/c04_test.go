package verifharness

// C04 Routing: exact host, then wildcard, then default; longest path prefix wins;
// independent of the command order (and of a restart) that produced the table.

import (
	"fmt"
	"math/rand/v2"
	"net/url"
	"runtime"
	"slices"
	"sort"
	"strings"
	"sync"
	"testing"
	"testing/synctest"
	"time"

	"github.com/basecamp/kamal-proxy/internal/server"
)

type c04Service struct {
	Name     string   `json:"name"`
	Hosts    []string `json:"hosts"`        // as normalised ("" = no host)
	Prefixes []string `json:"prefixes"`     // as normalised
	RawPfx   []string `json:"raw_prefixes"` // as the operator typed them
}

type c04Scenario struct {
	Idx      int          `json:"idx"`
	Services []c04Service `json:"services"`
	Exh      bool         `json:"exhaustive_part"`
}

var (
	c04Hosts    = []string{"a.com", "x.a.com", "*.a.com", "*.x.a.com", "com", "localhost", "", "[::1]", "[2001:db8::1]", "10.1.2.3"}
	c04Prefixes = []string{"/", "/api", "/apiary", "/api/v1", "/a", "/a/b"}
	c04ReqHosts = []string{"a.com", "a.com:80", "a.com:8443", "x.a.com", "y.a.com", "z.x.a.com", "z.x.a.com:80", "q.z.x.a.com", "com", "com:80", "localhost", "localhost:3000",
		"b.com", "other", ".a.com", "a.com.", "[::1]", "[::1]:80", "[::1]:8443", "[2001:db8::1]", "[2001:db8::1]:80", "[2001:db8::2]", "[::2]:80", "10.1.2.3", "10.1.2.3:80", "xa.com", "a.comx", "drop.example"}
	c04ReqPaths = []string{"/", "/api", "/api/", "/apix", "/api/x", "/apiary", "/apiary/", "/apiary/x", "/api/v1", "/api/v1/", "/api/v1x", "/api/v1/x", "/api/v2",
		"/a", "/a/", "/ab", "/a/b", "/a/bc", "/a/b/c", "/a//b", "//", "//api", "/api//v1", "/x", "/x/api", "/API",
		// the same paths with unreserved characters percent-encoded: the request path is what they decode to
		"/%61pi", "/%61pi/x", "/ap%69/v1/x", "/a/%62", "/%61piary"}
)

func c04Spell(rng *rand.Rand, p string) string {
	if p == "/" {
		return pick(rng, []string{"/", "", "//"})
	}
	switch rng.IntN(4) {
	case 0:
		return strings.TrimPrefix(p, "/")
	case 1:
		return p + "/"
	case 2:
		return strings.TrimPrefix(p, "/") + "/"
	}
	return p
}

func c04Conflicts(a, b c04Service) bool {
	for _, h := range a.Hosts {
		for _, p := range a.Prefixes {
			for _, h2 := range b.Hosts {
				for _, p2 := range b.Prefixes {
					if h == h2 && p == p2 {
						return true
					}
				}
			}
		}
	}
	return false
}

func c04Gen(rng *rand.Rand, idx int) c04Scenario {
	sc := c04Scenario{Idx: idx}
	n := 1 + rng.IntN(6)
	for len(sc.Services) < n {
		s := c04Service{Name: fmt.Sprintf("s%d", len(sc.Services))}
		hs := rng.Perm(len(c04Hosts))[:1+rng.IntN(3)]
		if rng.IntN(3) == 0 {
			hs = hs[:1]
		}
		for _, i := range hs {
			s.Hosts = append(s.Hosts, c04Hosts[i])
		}
		// the no-host binding cannot be combined with named hosts through the command (an empty
		// list means "no host"); keep it alone
		if contains(s.Hosts, "") {
			s.Hosts = []string{""}
		}
		for _, i := range rng.Perm(len(c04Prefixes))[:1+rng.IntN(3)] {
			s.Prefixes = append(s.Prefixes, c04Prefixes[i])
			s.RawPfx = append(s.RawPfx, c04Spell(rng, c04Prefixes[i]))
		}
		ok := true
		for _, o := range sc.Services {
			if c04Conflicts(s, o) {
				ok = false
			}
		}
		if ok {
			sc.Services = append(sc.Services, s)
		} else if rng.IntN(4) == 0 {
			n--
		}
	}
	return sc
}

// c04Exhaustive enumerates every table of one or two single-binding services.
func c04Exhaustive() []c04Scenario {
	var singles []c04Service
	for _, h := range c04Hosts {
		for _, p := range c04Prefixes {
			singles = append(singles, c04Service{Hosts: []string{h}, Prefixes: []string{p}, RawPfx: []string{p}})
		}
	}
	var out []c04Scenario
	for i, a := range singles {
		a.Name = "s0"
		out = append(out, c04Scenario{Services: []c04Service{a}, Exh: true})
		for _, b := range singles[i+1:] {
			b.Name = "s1"
			out = append(out, c04Scenario{Services: []c04Service{a, b}, Exh: true})
		}
	}
	return out
}

// ---- reference, written from the statement ----

func refHost(h string) string {
	// "the request's exact host (any port ignored)": an IPv6 literal keeps its brackets (that is
	// the host as it is written in a Host header and in a service's host list), a port is whatever
	// follows the closing bracket or the only colon
	if strings.HasPrefix(h, "[") {
		if i := strings.Index(h, "]"); i > 0 && strings.HasPrefix(h[i+1:], ":") {
			return h[:i+1]
		}
		return h
	}
	if i := strings.LastIndex(h, ":"); i > 0 && strings.Count(h, ":") == 1 {
		return h[:i]
	}
	return h
}

func refRoute(svcs []c04Service, hostHeader, path string) string {
	host := refHost(hostHeader)
	if strings.Contains(path, "%") {
		if dec, err := url.PathUnescape(path); err == nil {
			path = dec
		}
	}
	bound := func(h string) (out []c04Service) {
		for _, s := range svcs {
			if contains(s.Hosts, h) {
				out = append(out, s)
			}
		}
		return
	}
	cands := bound(host)
	if len(cands) == 0 {
		if i := strings.Index(host, "."); i > 0 {
			cands = bound("*" + host[i:])
		}
	}
	if len(cands) == 0 {
		cands = bound("")
	}
	best, bestLen := "", -1
	for _, s := range cands {
		for _, p := range s.Prefixes {
			match := p == "/" || path == p || strings.HasPrefix(path, p+"/")
			if match && len(p) > bestLen {
				best, bestLen = s.Name, len(p)
			}
		}
	}
	return best // "" = 404
}

func TestC04(t *testing.T) {
	run := NewRun(t, "C04")
	defer run.Finish()
	n := run.N(240, 12000)
	var scs []c04Scenario
	for i := 0; i < n; i++ {
		scs = append(scs, c04Gen(run.Rand(i), i))
	}
	if run.Thorough() {
		for _, e := range c04Exhaustive() {
			e.Idx = len(scs)
			scs = append(scs, e)
		}
	}
	for i, sc := range scs {
		if !run.Mine(i, sc) {
			continue
		}
		synctest.Test(t, func(t *testing.T) { c04Run(t, run, sc, run.Rand(i)) })
	}
	// "never on the order of the commands that produced that set" includes commands that overlap: a
	// command on A that waits long for its targets while A moves to another host and B takes the old
	// one (the scenario C05 uses for ownership); afterwards each host is answered by the service the
	// acknowledged commands bound to it
	for k := 0; k < run.N(12, 300); k++ {
		desc := map[string]any{"idx": k, "kind": "slow-command-overlapping-a-host-move"}
		if !run.Mine(len(scs)+k, desc) {
			continue
		}
		synctest.Test(t, func(t *testing.T) { c05Overlap(t, run, k, run.Rand(len(scs)+k)) })
	}
	// "every command order (and restart) that yields the same set": two commands that change the set
	// (or that merely record it) run at the same time, both are acknowledged, and then the proxy is
	// restarted from the state file it wrote. The set of services is the same whichever way the two
	// overlapped, so routing - live and after the restart - must be what the statement selects for it.
	base := len(scs) + run.N(12, 300)
	for k := 0; k < run.N(24, 900); k++ {
		sc := c04OvlGen(run.Rand(base+k), k)
		if !run.Mine(base+k, sc) {
			continue
		}
		synctest.Test(t, func(t *testing.T) { c04OvlRun(t, run, sc, run.Rand(base+k)) })
	}
}

// ---- overlapping commands, then a restart ----

type c04OvlOp struct {
	Kind string `json:"kind"` // deploy-new | move | redeploy-same | remove-ghost | resume | rollout-stop
	Svc  string `json:"svc"`
}

type c04OvlScenario struct {
	Idx      int          `json:"idx"`
	Kind     string       `json:"kind"`
	Services []c04Service `json:"services"` // the final table
	Ghosts   []c04Service `json:"ghosts"`   // deployed during the set-up, all removed again by the end
	// Mode: "late-change-inside-holder-snapshot": the late command changes the table after the holder
	// has listed the services for its snapshot and before that snapshot is on disk; "free": the two
	// start at nearby instants with per-step scheduler delays in the snapshot code.
	Mode   string   `json:"mode"`
	Holder c04OvlOp `json:"holder"`
	Late   c04OvlOp `json:"late"`
}

func c04OvlGen(rng *rand.Rand, idx int) c04OvlScenario {
	sc := c04OvlScenario{Idx: idx, Kind: "overlapping-commands-then-restart", Services: c04Gen(rng, idx).Services}
	for k := 0; k < 2; k++ {
		g := c04Service{Name: fmt.Sprintf("ghost%d", k), Hosts: []string{pick(rng, []string{"a.com", "x.a.com", "y.a.com", "*.a.com", "com", "localhost", "b.com", "z.x.a.com", ""})}, Prefixes: []string{pick(rng, c04Prefixes)}}
		g.RawPfx = g.Prefixes
		ok := true
		for _, o := range append(append([]c04Service{}, sc.Services...), sc.Ghosts...) {
			if c04Conflicts(g, o) {
				ok = false
			}
		}
		if ok {
			sc.Ghosts = append(sc.Ghosts, g)
		}
	}
	if len(sc.Ghosts) == 0 {
		// no service of the pool is ever bound to b.com
		sc.Ghosts = append(sc.Ghosts, c04Service{Name: "ghost0", Hosts: []string{"b.com"}, Prefixes: []string{"/"}, RawPfx: []string{"/"}})
	}
	var late, holder []c04OvlOp
	for _, s := range sc.Services {
		late = append(late, c04OvlOp{"deploy-new", s.Name}, c04OvlOp{"move", s.Name})
	}
	for _, g := range sc.Ghosts {
		late = append(late, c04OvlOp{"remove-ghost", g.Name}, c04OvlOp{"remove-ghost", g.Name})
	}
	sc.Late = pick(rng, late)
	for _, s := range sc.Services {
		if s.Name != sc.Late.Svc {
			for _, k := range []string{"deploy-new", "move", "redeploy-same", "resume", "rollout-stop"} {
				holder = append(holder, c04OvlOp{k, s.Name})
			}
		}
	}
	for _, g := range sc.Ghosts {
		if g.Name != sc.Late.Svc {
			holder = append(holder, c04OvlOp{"remove-ghost", g.Name}, c04OvlOp{"remove-ghost", g.Name})
		}
	}
	sc.Holder = pick(rng, holder)
	sc.Mode = pick(rng, []string{"late-change-inside-holder-snapshot", "late-change-inside-holder-snapshot", "free"})
	return sc
}

func c04OvlRun(t *testing.T, run *Run, sc c04OvlScenario, rng *rand.Rand) {
	run.Eval()
	all := append(append([]c04Service{}, sc.Services...), sc.Ghosts...)
	byName := map[string]c04Service{}
	for _, s := range all {
		byName[s.Name] = s
	}
	opOn := func(name string) string {
		for _, op := range []c04OvlOp{sc.Holder, sc.Late} {
			if op.Svc == name {
				return op.Kind
			}
		}
		return ""
	}
	w := NewWorld(t, WorldOpt{})
	closed := false
	closeW := func() {
		if !closed {
			closed = true
			w.Close()
		}
	}
	defer closeW()
	fail := func(sig, format string, a ...any) {
		run.Violate(sig, fmt.Sprintf(format, a...), sc, func() []string { return w.Trace(80) })
	}
	for _, s := range all {
		w.AddTarget("svc-"+s.Name+":80", nil)
	}
	// set-up, one command after the other: everything except what the two overlapping commands do
	for _, i := range rng.Perm(len(all)) {
		s := all[i]
		hosts, pfx := s.Hosts, s.RawPfx
		switch opOn(s.Name) {
		case "deploy-new":
			continue
		case "move":
			hosts, pfx = []string{fmt.Sprintf("tmp%d.example", i)}, []string{pick(rng, c04Prefixes)}
		}
		if e := c04Deploy(w, s, hosts, pfx); e != "" {
			fail("deploy-failed", "deploy of %s (hosts %v prefixes %v) failed: %s", s.Name, hosts, pfx, e)
			return
		}
	}
	for _, g := range sc.Ghosts {
		if opOn(g.Name) == "" {
			if c := w.Remove(g.Name); c.Err+c.Panic != "" {
				fail("remove-failed", "remove of %s failed: %s", g.Name, c.Err+c.Panic)
				return
			}
		}
	}
	// exec runs one of the two commands; it returns the failure that matters (commands that change
	// the set must succeed: their bindings are free; resume / rollout-stop of a running service
	// without a rollout may say so)
	exec := func(op c04OvlOp) (failure, panicked string) {
		switch op.Kind {
		case "deploy-new", "move", "redeploy-same":
			s := byName[op.Svc]
			return c04Deploy(w, s, s.Hosts, s.RawPfx), ""
		case "remove-ghost":
			c := w.Remove(op.Svc)
			return c.Err + c.Panic, ""
		case "resume":
			return "", w.Resume(op.Svc).Panic
		}
		return "", w.RolloutStop(op.Svc).Panic
	}
	var hFail, hPanic, lFail, lPanic string
	var wg sync.WaitGroup
	wg.Add(2)
	placed := false
	if sc.Mode == "free" {
		spins := []int{rng.IntN(4) * 400, rng.IntN(4) * 400, rng.IntN(4) * 400, rng.IntN(4) * 400, 0}
		w.mu.Lock()
		w.PointSpin = map[string]func(int) int{}
		for _, p := range []string{"snapshot.listed", "snapshot.created", "snapshot.written"} {
			w.PointSpin[p] = func(n int) int { return spins[n%len(spins)] }
		}
		w.mu.Unlock()
		dh, dl := time.Duration(rng.IntN(3))*(5*time.Millisecond+OffArrival), time.Duration(rng.IntN(3))*(5*time.Millisecond+OffArrival)
		go func() { defer wg.Done(); time.Sleep(dh); hFail, hPanic = exec(sc.Holder) }()
		go func() { defer wg.Done(); time.Sleep(dl); lFail, lPanic = exec(sc.Late) }()
	} else {
		// The holder stops where it has listed the services for its snapshot (it waits on a channel:
		// virtual time goes on, the late command's targets can become healthy). When the late command
		// is about to change the table (its targets are healthy / it is a remove), the holder goes on
		// after a real-time delay - scheduler yields, because it is inside the snapshot lock where a
		// virtual sleep would stop the clock for good - that lets the late command's in-memory step
		// and its own attempt to save the state happen first.
		reached, goOn := make(chan struct{}), make(chan struct{})
		var onceR, onceG sync.Once
		markReached := func() (first bool) { onceR.Do(func() { first = true; close(reached) }); return }
		release := func(byLate bool) {
			onceG.Do(func() {
				if byLate {
					placed = true
				}
				close(goOn)
			})
		}
		w.mu.Lock()
		w.OnHook = func(h HookRec) {
			switch {
			case h.Point == "snapshot.listed":
				if markReached() {
					<-goOn
					for i := 0; i < 20000; i++ {
						runtime.Gosched()
					}
				}
			case h.Point == "deploy.healthy" && h.Name == sc.Late.Svc:
				select {
				case <-reached:
					release(true)
				default:
				}
			}
		}
		w.mu.Unlock()
		go func() { defer wg.Done(); hFail, hPanic = exec(sc.Holder); markReached(); release(false) }()
		go func() {
			defer wg.Done()
			<-reached
			if sc.Late.Kind == "remove-ghost" {
				release(true)
			}
			lFail, lPanic = exec(sc.Late)
			release(false)
		}()
	}
	wg.Wait()
	w.ClearDelays()
	w.mu.Lock()
	w.OnHook = nil
	w.mu.Unlock()
	what := fmt.Sprintf("%s(%s) overlapping %s(%s)", sc.Holder.Kind, sc.Holder.Svc, sc.Late.Kind, sc.Late.Svc)
	if hPanic+lPanic != "" {
		fail("panic:overlapping-commands", "%s: %s %s", what, hPanic, lPanic)
		return
	}
	if hFail+lFail != "" {
		// whether a command whose bindings are free succeeds is C05's business
		run.Inconclusive("C04 %s: a command failed: %q %q", what, hFail, lFail)
		return
	}
	if placed {
		run.Count("overlap_late_change_released_inside_holder_snapshot", 1)
	}
	judge := func(m map[string]string, sig, how string) bool {
		keys := make([]string, 0, len(m))
		for k := range m {
			keys = append(keys, k)
		}
		sort.Strings(keys)
		for _, k := range keys {
			hp := strings.SplitN(k, " ", 2)
			if want := refRoute(sc.Services, hp[0], hp[1]); m[k] != want {
				fail(sig, "%s, both acknowledged; %s: Host %q path %q was answered by %q, the statement selects %q for the services now deployed", what, how, hp[0], hp[1], m[k], want)
				return false
			}
		}
		run.Count("probes", len(keys))
		return true
	}
	if !judge(c04Matrix(w, "ov-"), "route-mismatch:after-overlapping-commands", "live") {
		return
	}
	stateDir := w.CopyState()
	closeW()
	w2 := NewWorld(t, WorldOpt{StateDir: stateDir})
	defer w2.Close()
	for _, s := range all {
		w2.AddTarget("svc-"+s.Name+":80", nil)
	}
	w = w2 // traces of failures from here on come from the restarted proxy
	if err := w2.Router.RestoreLastSavedState(); err != nil {
		fail("restore-failed", "%s, then RestoreLastSavedState: %v", what, err)
		return
	}
	if !judge(c04Matrix(w2, "ovr-"), "route-mismatch:restored-after-overlapping-commands", "after a restart from the state file") {
		return
	}
	run.Class(fmt.Sprintf("overlap-then-restart|%s|holder=%s|late=%s", sc.Mode, sc.Holder.Kind, sc.Late.Kind))
	run.Count("overlap_then_restart_scenarios", 1)
}

func c04Matrix(w *World, tag string) map[string]string {
	m := map[string]string{}
	n := 0
	for _, h := range c04ReqHosts {
		for _, p := range c04ReqPaths {
			n++
			r := w.Do(Req{ID: fmt.Sprintf("%s%d", tag, n), Host: h, Path: p})
			key := h + " " + p
			switch {
			case r.Status == 200 && strings.HasPrefix(r.Target, "svc-"):
				m[key] = strings.TrimSuffix(strings.TrimPrefix(r.Target, "svc-"), ":80")
			case r.Status == 404:
				m[key] = ""
			default:
				m[key] = fmt.Sprintf("!status=%d target=%s err=%s", r.Status, r.Target, r.Err)
			}
		}
	}
	return m
}

func c04Deploy(w *World, s c04Service, hosts, pfx []string) string {
	so := server.ServiceOptions{TLSRedirect: true, Hosts: hosts, PathPrefixes: pfx}
	if len(hosts) == 1 && hosts[0] == "" {
		so.Hosts = nil
	}
	c := w.Deploy(s.Name, []string{"svc-" + s.Name + ":80"}, so, DefTO, 5*time.Second, time.Second)
	return c.Err + c.Panic
}

func c04Run(t *testing.T, run *Run, sc c04Scenario, rng *rand.Rand) {
	run.Eval()
	var mats [3]map[string]string
	var stateDir string
	grabbed := false
	fail := func(w *World, sig, format string, a ...any) {
		run.Violate(sig, fmt.Sprintf(format, a...), sc, func() []string { return w.Trace(60) })
	}
	// build 1: random order; build 2: another order with redeploys that move bindings; build 3: restore
	for b := 0; b < 3; b++ {
		opt := WorldOpt{}
		if b == 2 {
			opt.StateDir = stateDir
		}
		w := NewWorld(t, opt)
		for _, s := range sc.Services {
			w.AddTarget("svc-"+s.Name+":80", nil)
		}
		bad := false
		switch b {
		case 0, 1:
			// second build: "ghost" services are deployed on hosts of the pool (bound or not in the
			// final table) and removed again, some before and some after the real deploys: the final
			// set of services is the same, so routing must be too
			// second build: traffic for every host of the pool after each command, judged against the
			// statement applied to the services installed at that moment. It also fills anything the
			// proxy remembers per request (a cache of earlier routing decisions, say) under every
			// intermediate table before the final one is probed.
			nwarm := 0
			cur := map[string]c04Service{} // second build: the services installed right now
			norm := func(hosts, pfx []string) ([]string, []string) {
				var ps []string
				for _, p := range pfx {
					ps = append(ps, "/"+strings.Trim(p, "/"))
				}
				return hosts, ps
			}
			installed := func(name string, hosts, pfx []string) {
				h, p := norm(hosts, pfx)
				cur[name] = c04Service{Name: name, Hosts: h, Prefixes: p}
			}
			warm := func() {
				if b != 1 || bad || grabbed {
					return
				}
				var now []c04Service
				for _, sv := range cur {
					now = append(now, sv)
				}
				for _, h := range c04ReqHosts {
					for _, p := range []string{"/", "/api/v1/x", "/a/b", "/x", "/api"} {
						nwarm++
						r := w.Do(Req{ID: fmt.Sprintf("warm%d", nwarm), Host: h, Path: p})
						got := fmt.Sprintf("!status=%d target=%s err=%s", r.Status, r.Target, r.Err)
						if r.Status == 200 && strings.HasPrefix(r.Target, "svc-") {
							got = strings.TrimSuffix(strings.TrimPrefix(r.Target, "svc-"), ":80")
						} else if r.Status == 404 {
							got = ""
						}
						if want := refRoute(now, h, p); got != want {
							names := []string{}
							for n := range cur {
								names = append(names, n)
							}
							sort.Strings(names)
							run.Violate("route-mismatch:between-commands", fmt.Sprintf("after %d commands of the second build (installed: %v): Host %q path %q was answered by %q, the statement selects %q", len(w.Cmds), names, h, p, got, want), sc, func() []string { return w.Trace(60) })
							bad = true
							return
						}
					}
				}
			}
			var ghosts []string
			ghost := func(k int) {
				name := fmt.Sprintf("ghost%d", k)
				h := pick(rng, []string{"a.com", "x.a.com", "y.a.com", "*.a.com", "com", "localhost", "b.com", "z.x.a.com", ""})
				p := pick(rng, c04Prefixes)
				g := c04Service{Name: name, Hosts: []string{h}, Prefixes: []string{p}}
				for _, o := range sc.Services {
					if c04Conflicts(g, o) {
						return
					}
				}
				w.AddTarget("svc-"+name+":80", nil)
				if c04Deploy(w, g, g.Hosts, g.Prefixes) == "" {
					ghosts = append(ghosts, name)
					installed(name, g.Hosts, g.Prefixes)
				}
				warm()
			}
			if b == 1 {
				for k := 0; k < 3; k++ {
					ghost(k)
				}
				if len(ghosts) > 0 && rng.IntN(2) == 0 {
					w.Remove(ghosts[0])
					delete(cur, ghosts[0])
					ghosts = ghosts[1:]
					warm()
				}
			}
			// second build: one service is first deployed with an extra host, another with an extra
			// path prefix, that its final deploy gives up again (a redeploy to a strict subset)
			extraHost, extraPfx := -1, -1
			if b == 1 {
				for _, i := range rng.Perm(len(sc.Services)) {
					if sv := sc.Services[i]; sv.Hosts[0] != "" && extraHost < 0 && rng.IntN(2) == 0 {
						extraHost = i
					} else if extraPfx < 0 && rng.IntN(2) == 0 {
						extraPfx = i
					}
				}
			}
			for _, i := range rng.Perm(len(sc.Services)) {
				s := sc.Services[i]
				if i == extraHost || i == extraPfx {
					hosts, pfx := append([]string{}, s.Hosts...), append([]string{}, s.RawPfx...)
					if i == extraHost {
						hosts = append(hosts, "drop.example")
					} else {
						pfx = append(pfx, "/x")
					}
					if e := c04Deploy(w, s, hosts, pfx); e != "" {
						fail(w, "deploy-failed", "deploy of %s with an extra binding (hosts %v prefixes %v) failed: %s", s.Name, hosts, pfx, e)
						bad = true
					}
					installed(s.Name, hosts, pfx)
					warm()
				} else if b == 1 && rng.IntN(2) == 0 {
					// first somewhere else, then moved onto its final bindings
					tmpHosts, tmpPfx := []string{fmt.Sprintf("tmp%d.example", i)}, []string{pick(rng, c04Prefixes)}
					if e := c04Deploy(w, s, tmpHosts, tmpPfx); e != "" {
						fail(w, "deploy-failed", "temporary deploy of %s failed: %s", s.Name, e)
						bad = true
					}
					installed(s.Name, tmpHosts, tmpPfx)
					warm()
				}
				if e := c04Deploy(w, s, s.Hosts, s.RawPfx); e != "" {
					fail(w, "deploy-failed", "deploy of %s (hosts %v prefixes %v) failed: %s", s.Name, s.Hosts, s.RawPfx, e)
					bad = true
				}
				installed(s.Name, s.Hosts, s.RawPfx)
				warm()
			}
			// second build: one service then asks for a pair that another service owns, next to pairs
			// of its own on the same host. Whether that is refused is not this property's business
			// (refused: nothing changed; accepted: the table is no longer one this reference speaks
			// about, judged below by history-independence alone). What is: the same set of services
			// reached through more commands (a bystander deployed and removed, four times) routes
			// every request exactly as before.
			if b == 1 && !bad {
			grab:
				for _, i := range rng.Perm(len(sc.Services)) {
					a := sc.Services[i]
					for _, j := range rng.Perm(len(sc.Services)) {
						o := sc.Services[j]
						if i == j || !slices.ContainsFunc(a.Hosts, func(h string) bool { return slices.Contains(o.Hosts, h) }) {
							continue
						}
						for _, p := range o.Prefixes {
							if slices.Contains(a.Prefixes, p) {
								continue
							}
							run.Count("grab_attempts", 1)
							if e := c04Deploy(w, a, a.Hosts, append(append([]string{}, a.RawPfx...), p)); e == "" {
								run.Count("grab_attempts_accepted", 1)
								grabbed = true
							}
							before := c04Matrix(w, "g0-")
							for k := 0; k < 4 && !bad; k++ {
								by := c04Service{Name: fmt.Sprintf("bystander%d", k), Hosts: []string{fmt.Sprintf("by%d.example", k)}, Prefixes: []string{"/"}}
								w.AddTarget("svc-"+by.Name+":80", nil)
								if e := c04Deploy(w, by, by.Hosts, by.Prefixes); e != "" {
									fail(w, "deploy-failed", "deploy of a bystander service failed: %s", e)
									bad = true
									break
								}
								w.Remove(by.Name)
								after := c04Matrix(w, fmt.Sprintf("g%d-", k+1))
								for key, v := range before {
									if after[key] != v {
										hp := strings.SplitN(key, " ", 2)
										fail(w, "route-changed:same-services-more-commands", "Host %q path %q was answered by %q, and by %q after a bystander service on another host was deployed and removed again (%d times): same services, same bindings, different choice", hp[0], hp[1], v, after[key], k+1)
										bad = true
										break
									}
								}
							}
							break grab
						}
					}
				}
			}
			if b == 1 && !bad {
				for k := 3; k < 5; k++ {
					ghost(k)
				}
				for _, g := range ghosts {
					if c := w.Remove(g); c.Err != "" {
						fail(w, "remove-failed", "remove of %s failed: %s", g, c.Err)
						bad = true
					}
					delete(cur, g)
					warm()
				}
				run.Count("requests_judged_between_commands", nwarm)
			}
			if b == 0 {
				stateDir = w.CopyState()
			}
		case 2:
			if err := w.Router.RestoreLastSavedState(); err != nil {
				fail(w, "restore-failed", "RestoreLastSavedState: %v", err)
				bad = true
			}
		}
		if !bad {
			mats[b] = c04Matrix(w, fmt.Sprintf("b%d-", b))
		}
		w.Close()
		if bad {
			return
		}
	}
	keys := make([]string, 0, len(mats[0]))
	for k := range mats[0] {
		keys = append(keys, k)
	}
	sort.Strings(keys)
	levels := map[string]bool{}
	for _, k := range keys {
		hp := strings.SplitN(k, " ", 2)
		want := refRoute(sc.Services, hp[0], hp[1])
		for b, name := range []string{"random-order", "moved-bindings", "restored"} {
			if b == 1 && grabbed {
				continue
			}
			if got := mats[b][k]; got != want {
				run.Violate("route-mismatch:"+name, fmt.Sprintf("table built by %s: Host %q path %q was answered by %q, the statement selects %q", name, hp[0], hp[1], got, want), sc, nil)
				return
			}
		}
		if want != "" {
			levels[want] = true
		}
	}
	run.Count("probes", 3*len(keys))
	var shape []string
	for _, s := range sc.Services {
		shape = append(shape, fmt.Sprintf("%s%v", strings.Join(s.Hosts, "+"), s.Prefixes))
	}
	sort.Strings(shape)
	if len(sc.Services) >= 2 || sc.Exh {
		run.Class(strings.Join(shape, ";"))
	}
	if sc.Exh {
		run.Count("exhaustive_small_scope_tables", 1)
	}
	run.Sample(map[string]any{"scenario": sc, "probes_per_build": len(keys), "services_reached": len(levels)})
}
