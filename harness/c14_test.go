package verifharness

// C14 Buffering delivers exact bodies, enforces limits and cleans up.
// Part 1: exhaustive small scope on the exported Buffer constructors (real files in a private TMPDIR).
// Part 2: end to end in virtual time through the full chain.

import (
	"bufio"
	"bytes"
	"crypto/sha256"
	"errors"
	"fmt"
	"io"
	"math/rand/v2"
	"net"
	"net/http"
	"os"
	"path/filepath"
	"strings"
	"sync"
	"sync/atomic"
	"testing"
	"testing/synctest"
	"time"

	"github.com/basecamp/kamal-proxy/internal/server"
)

func c14Spills(dir string) (n int, size int64) {
	es, _ := os.ReadDir(dir)
	for _, e := range es {
		if strings.HasPrefix(e.Name(), "proxy-buffer-") {
			n++
			if fi, err := e.Info(); err == nil {
				size += fi.Size()
			}
		}
	}
	return
}

// compositions of n into ordered positive parts
func compositions(n int) [][]int {
	if n == 0 {
		return [][]int{{}}
	}
	var out [][]int
	for first := 1; first <= n; first++ {
		for _, rest := range compositions(n - first) {
			out = append(out, append([]int{first}, rest...))
		}
	}
	return out
}

type c14Unit struct {
	MaxMem   int64 `json:"max_mem"`
	MaxBytes int64 `json:"max_bytes"`
	Chunks   []int `json:"chunks"`
	Reader   bool  `json:"reader_variant"`
}

// memory-bound and spill invariant after `total` accepted bytes
func c14Invariant(dir string, total, maxMem int64) string { return c14Inv(dir, total, maxMem, true) }

// c14Inv: single = exactly one body is being buffered (unit level); end to end the request
// buffer's file may still exist while the response buffer fills, so only the size bound applies.
func c14Inv(dir string, total, maxMem int64, single bool) string {
	n, size := c14Spills(dir)
	if !single {
		if total > maxMem && size < total-maxMem {
			return fmt.Sprintf("%d bytes buffered, memory limit %d, but only %d bytes are on disk: more than the memory limit is held in memory", total, maxMem, size)
		}
		return ""
	}
	if n > 1 {
		return fmt.Sprintf("%d spill files for one body", n)
	}
	if total <= maxMem && n != 0 {
		return fmt.Sprintf("spill file present although only %d bytes were accepted (memory limit %d)", total, maxMem)
	}
	if total > maxMem && size < total-maxMem {
		return fmt.Sprintf("%d bytes accepted, memory limit %d, but only %d bytes are on disk: more than the memory limit is held in memory", total, maxMem, size)
	}
	return ""
}

type chunkReader struct {
	chunks  [][]byte
	i       int
	onRead  func(delivered int64)
	deliver int64
}

func (r *chunkReader) Read(p []byte) (int, error) {
	if r.onRead != nil {
		r.onRead(r.deliver)
	}
	if r.i >= len(r.chunks) {
		return 0, io.EOF
	}
	n := copy(p, r.chunks[r.i])
	r.chunks[r.i] = r.chunks[r.i][n:]
	if len(r.chunks[r.i]) == 0 {
		r.i++
	}
	r.deliver += int64(n)
	return n, nil
}
func (r *chunkReader) Close() error { return nil }

func c14RunUnit(u c14Unit, dir string) (sig, what string) {
	var all []byte
	var parts [][]byte
	for i, c := range u.Chunks {
		b := bytes.Repeat([]byte{byte('a' + i)}, c)
		parts = append(parts, b)
		all = append(all, b...)
	}
	total := int64(len(all))
	wantReject := u.MaxBytes > 0 && total > u.MaxBytes
	if u.Reader {
		problem := ""
		cr := &chunkReader{chunks: parts}
		cr.onRead = func(delivered int64) {
			if problem == "" && !(u.MaxBytes > 0 && delivered > u.MaxBytes) {
				problem = c14Invariant(dir, delivered, u.MaxMem)
			}
		}
		rc, err := server.NewBufferedReadCloser(cr, u.MaxBytes, u.MaxMem)
		if problem != "" {
			return "memory-bound", problem
		}
		if wantReject {
			if !errors.Is(err, server.ErrMaximumSizeExceeded) {
				return "limit-not-enforced", fmt.Sprintf("body of %d bytes accepted with limit %d (err=%v)", total, u.MaxBytes, err)
			}
			if n, _ := c14Spills(dir); n != 0 {
				return "spill-left-behind", "spill file left after the constructor rejected the body"
			}
			return "", ""
		}
		if err != nil {
			return "rejected-within-limit", fmt.Sprintf("body of %d bytes rejected with limit %d: %v", total, u.MaxBytes, err)
		}
		got, rerr := io.ReadAll(rc)
		if rerr != nil || !bytes.Equal(got, all) {
			rc.Close()
			return "bytes-differ", fmt.Sprintf("read back %d bytes (err %v), wrote %d", len(got), rerr, total)
		}
		rc.Close()
		rc.Close()
		if n, _ := c14Spills(dir); n != 0 {
			return "spill-left-behind", "spill file left after Close"
		}
		return "", ""
	}
	buf := server.NewBufferedWriteCloser(u.MaxBytes, u.MaxMem)
	var acc int64
	rejected := false
	for _, p := range parts {
		if rejected {
			// the response writer of the middleware swallows the overflow error, so the reverse proxy
			// keeps writing the rest of the body into the same buffer
			buf.Write(p)
			continue
		}
		n, err := buf.Write(p)
		if u.MaxBytes > 0 && acc+int64(len(p)) > u.MaxBytes {
			if !errors.Is(err, server.ErrMaximumSizeExceeded) {
				buf.Close()
				return "limit-not-enforced", fmt.Sprintf("write taking the body to %d bytes accepted with limit %d (n=%d err=%v)", acc+int64(len(p)), u.MaxBytes, n, err)
			}
			rejected = true
			continue
		}
		if err != nil || n != len(p) {
			buf.Close()
			return "rejected-within-limit", fmt.Sprintf("write of %d bytes at offset %d failed with limit %d: n=%d err=%v", len(p), acc, u.MaxBytes, n, err)
		}
		acc += int64(n)
		if pr := c14Invariant(dir, acc, u.MaxMem); pr != "" {
			buf.Close()
			return "memory-bound", pr
		}
	}
	if rejected != wantReject {
		buf.Close()
		return "limit-verdict", fmt.Sprintf("total %d, limit %d: rejected=%v", total, u.MaxBytes, rejected)
	}
	if rejected {
		if !buf.Overflowed() {
			buf.Close()
			return "overflow-not-flagged", "limit exceeded but Overflowed() is false"
		}
	} else {
		var out bytes.Buffer
		if err := buf.Send(&out); err != nil || !bytes.Equal(out.Bytes(), all) {
			buf.Close()
			return "bytes-differ", fmt.Sprintf("Send delivered %d bytes (err %v), wrote %d", out.Len(), err, total)
		}
	}
	buf.Close()
	buf.Close()
	if n, _ := c14Spills(dir); n != 0 {
		return "spill-left-behind", "spill file left after Close"
	}
	return "", ""
}

type c14E2E struct {
	Idx        int           `json:"idx"`
	BufReq     bool          `json:"buffer_requests"`
	BufResp    bool          `json:"buffer_responses"`
	MaxMem     int64         `json:"max_mem"`
	MaxReq     int64         `json:"max_request_body"`
	MaxResp    int64         `json:"max_response_body"`
	ReqLen     int           `json:"request_len"`
	ReqCh      int           `json:"request_chunks"`
	RespLen    int           `json:"response_len"`
	RespCh     int           `json:"response_chunks"`
	Gap        time.Duration `json:"gap"`
	Prelude    bool          `json:"oversized_response_first"` // an earlier request of the same service got a response over the limit (500)
	ReqChunked bool          `json:"request_chunked"`          // the client sends no Content-Length (Transfer-Encoding: chunked)
	Status     int           `json:"status"`                   // the target's final status (ok, head and target-truncates endings)
	Hints      int           `json:"hints"`                    // 103 responses the target sends before it
	AskUpgrade string        `json:"asks_upgrade"`             // the client asks for a protocol upgrade (websocket, h2c) that the target ignores: an ordinary exchange
	Ending     string        `json:"ending"`                   // ok | head | target-close-before | target-truncates | client-abort-upload | client-abort-download | sse | upgrade
}

func c14GenE2E(rng *rand.Rand, idx int) c14E2E {
	sc := c14E2E{Idx: idx, BufReq: rng.IntN(4) != 0, BufResp: rng.IntN(4) != 0, Gap: 50*time.Millisecond + OffArrival}
	sc.MaxMem = pick(rng, []int64{0, 1, 1024, 4096, 1 << 20})
	around := func(limit int64) int {
		if limit == 0 {
			return pick(rng, []int{0, 1, 1000, 5000, 70000})
		}
		return int(limit) + pick(rng, []int{-1, 0, 1, -int(limit) / 2, int(limit)})
	}
	sc.MaxReq = pick(rng, []int64{0, 0, 2048, 8192})
	sc.MaxResp = pick(rng, []int64{0, 0, 2048, 8192})
	sc.ReqLen = around(pick(rng, []int64{sc.MaxReq, sc.MaxMem, sc.MaxReq}))
	sc.RespLen = around(pick(rng, []int64{sc.MaxResp, sc.MaxMem, sc.MaxResp}))
	if sc.ReqLen < 0 {
		sc.ReqLen = 0
	}
	if sc.RespLen < 0 {
		sc.RespLen = 0
	}
	if sc.ReqLen > 300000 {
		sc.ReqLen = 300000
	}
	if sc.RespLen > 300000 {
		sc.RespLen = 300000
	}
	sc.ReqCh, sc.RespCh = 1+rng.IntN(5), 1+rng.IntN(5)
	sc.Ending = pick(rng, []string{"ok", "ok", "ok", "ok", "head", "target-close-before", "target-truncates", "client-abort-upload", "client-abort-download", "sse", "upgrade"})
	if sc.Ending == "head" {
		sc.ReqLen, sc.ReqCh = 0, 1
	}
	sc.Prelude = sc.BufResp && sc.MaxResp > 0 && rng.IntN(2) == 0
	sc.ReqChunked = sc.ReqLen > 0 && sc.Ending != "upgrade" && rng.IntN(3) == 0
	sc.Status = pick(rng, []int{200, 200, 200, 201, 404, 500})
	if rng.IntN(4) == 0 {
		sc.Hints = 1 + rng.IntN(2)
	}
	if (sc.Ending == "ok" || sc.Ending == "target-truncates") && idx%3 == 1 {
		sc.AskUpgrade = []string{"websocket", "h2c"}[(idx/3)%2]
	}
	return sc
}

func TestC14(t *testing.T) {
	run := NewRun(t, "C14")
	defer run.Finish()
	// ---- part 1: exhaustive small scope ----
	var units []c14Unit
	for mem := int64(0); mem <= 6; mem++ {
		for mb := int64(0); mb <= 8; mb++ {
			for total := 0; total <= 10; total++ {
				comps := [][]int{{total}, {total / 2, total - total/2}, {1, total - 1}}
				if total <= 8 {
					comps = compositions(total)
				}
				for _, c := range comps {
					for _, rd := range []bool{false, true} {
						units = append(units, c14Unit{mem, mb, c, rd})
					}
				}
			}
		}
	}
	const batch = 500
	nb := (len(units) + batch - 1) / batch
	idx := 0
	for b := 0; b < nb; b++ {
		lo, hi := b*batch, min((b+1)*batch, len(units))
		if !run.Mine(idx, map[string]any{"part": "exhaustive-buffer", "units": fmt.Sprintf("%d..%d of %d", lo, hi, len(units))}) {
			idx++
			continue
		}
		idx++
		dir := t.TempDir()
		old := os.Getenv("TMPDIR")
		os.Setenv("TMPDIR", dir)
		for _, u := range units[lo:hi] {
			if len(u.Chunks) == 2 && (u.Chunks[0] <= 0 || u.Chunks[1] <= 0) {
				continue
			}
			run.Eval()
			if sig, what := c14RunUnit(u, dir); sig != "" {
				run.Violate("buffer:"+sig, what, u, nil)
			}
			es, _ := os.ReadDir(dir)
			for _, e := range es {
				os.Remove(filepath.Join(dir, e.Name()))
			}
			total := int64(0)
			for _, c := range u.Chunks {
				total += int64(c)
			}
			rel := func(a, b int64) string {
				switch {
				case b == 0:
					return "unl"
				case a < b:
					return "lt"
				case a == b:
					return "eq"
				}
				return "gt"
			}
			run.Class(fmt.Sprintf("unit|mem:%s|limit:%s|chunks=%d|reader=%v", rel(total, max(u.MaxMem, 1)), rel(total, u.MaxBytes), min(len(u.Chunks), 4), u.Reader))
		}
		os.Setenv("TMPDIR", old)
	}
	run.Count("exhaustive_units_total", len(units))
	// ---- part 2: end to end ----
	n := run.N(400, 20000)
	for i := 0; i < n; i++ {
		sc := c14GenE2E(run.Rand(i), i)
		if !run.Mine(idx+i, sc) {
			continue
		}
		synctest.Test(t, func(t *testing.T) { c14RunE2E(t, run, sc) })
	}
	// ---- part 2b: an upload that a drain overtakes ----
	k := 0
	for _, cmd := range []string{"stop", "pause-resume", "redeploy"} {
		for _, first := range []int{0, 32, 64} {
			for _, total := range []int{65, 4000} {
				desc := map[string]any{"part": "upload-overtaken-by-drain", "cmd": cmd, "bytes_before_the_drain": first, "body": total, "buffer_memory": 64}
				k++
				if !run.Mine(idx+n+k, desc) {
					continue
				}
				synctest.Test(t, func(t *testing.T) { c14Drained(t, run, desc, cmd, first, total) })
			}
		}
	}
	// ---- part 2c: the spill itself fails ----
	for _, side := range []string{"response", "request"} {
		for _, total := range []int{65, 3000} {
			for _, chunked := range []bool{false, true} {
				desc := map[string]any{"part": "spill-cannot-be-created", "side": side, "body": total, "chunked": chunked, "buffer_memory": 64}
				k++
				if !run.Mine(idx+n+k, desc) {
					continue
				}
				synctest.Test(t, func(t *testing.T) { c14SpillFault(t, run, desc, side, total, chunked) })
			}
		}
	}
	if desc := map[string]any{"part": "real-binary-dropped-connection"}; run.Mine(1<<20, desc) {
		c14RealDrop(t, run, desc)
	}
}

// c14Drained: "every way a request can end" includes being overtaken by a drain. A client uploads
// to a service with request buffering (buffer-memory 64): it has sent the first part of its body
// (at most buffer-memory) when the service is stopped / paused / redeployed with a drain timeout of
// 10ms, and sends the rest a second later. Whatever the client is answered: a target that is
// contacted sees exactly the body, and no spill file is left once the request has ended.
func c14Drained(t *testing.T, run *Run, desc any, cmd string, first, total int) {
	dir := t.TempDir()
	old := os.Getenv("TMPDIR")
	os.Setenv("TMPDIR", dir)
	defer os.Setenv("TMPDIR", old)
	w := NewWorld(t, WorldOpt{})
	defer w.Close()
	w.MaxClientLife = 30 * time.Second
	run.Eval()
	fail := func(sig, format string, a ...any) {
		run.Violate("e2e:"+sig, fmt.Sprintf(format, a...), desc, func() []string { return w.Trace(60) })
	}
	body := c13Bytes("c14drain", first*7+total, total)
	var mu sync.Mutex
	var got []*RawMsg
	serve := func(ft *FakeTarget, c net.Conn) {
		br := bufio.NewReader(c)
		for {
			m, err := readRawRequest(br)
			if err != nil {
				return
			}
			mu.Lock()
			got = append(got, m)
			mu.Unlock()
			if !w.sleep(OffTarget) {
				return
			}
			fmt.Fprintf(c, "HTTP/1.1 200 OK\r\nContent-Length: 2\r\n\r\nok")
		}
	}
	w.AddTarget("up1:80", nil).RawServe = serve
	w.AddTarget("up2:80", nil).RawServe = serve
	to := DefTO
	to.BufferRequests, to.MaxMemoryBufferSize = true, 64
	so := server.ServiceOptions{Hosts: []string{"up.example"}}
	if c := w.Deploy("up", []string{"up1:80"}, so, to, 5*time.Second, time.Second); c.Err != "" {
		run.Inconclusive("setup deploy: %s", c.Err)
		return
	}
	conn, err := w.connect(false, "up.example")
	if err != nil {
		run.Inconclusive("connect: %v", err)
		return
	}
	defer conn.Close()
	fmt.Fprintf(conn, "POST /upload HTTP/1.1\r\nHost: up.example\r\nContent-Length: %d\r\nConnection: close\r\n\r\n", total)
	conn.Write(body[:first])
	time.Sleep(time.Second)
	switch cmd {
	case "stop":
		w.Stop("up", 10*time.Millisecond, "closed")
	case "pause-resume":
		w.Pause("up", 10*time.Millisecond, time.Minute)
		w.Resume("up")
	case "redeploy":
		w.Deploy("up", []string{"up2:80"}, so, to, 5*time.Second, 10*time.Millisecond)
	}
	time.Sleep(time.Second)
	conn.Write(body[first:])
	status := -1
	if resp, rerr := readRawResponse(bufio.NewReader(conn), "POST"); rerr == nil {
		status = resp.Status()
	}
	conn.Close()
	time.Sleep(5 * time.Second) // everything about this request has ended by now
	mu.Lock()
	defer mu.Unlock()
	if n, _ := c14Spills(dir); n != 0 {
		fail("spill-left-behind:upload-overtaken-by-drain", "%d spill files left in TMPDIR after an upload that a %s overtook had ended (client saw status %d; %d of %d body bytes had been sent when the drain began, buffer-memory 64)", n, cmd, status, first, total)
		return
	}
	for _, m := range got {
		if strings.HasPrefix(m.Line, "POST ") && !bytes.Equal(m.Body, body) {
			fail("request-body-differs:upload-overtaken-by-drain", "the target received %d body bytes that are not the %d the client sent", len(m.Body), total)
			return
		}
	}
	run.Class(fmt.Sprintf("e2e|upload-overtaken|%s|first=%d|total=%d|status=%d|delivered=%d", cmd, first, total, status, len(got)))
}

// c14SpillFault: the body is larger than buffer-memory and the temporary file cannot be created (TMPDIR
// names a directory that does not exist). The request may fail; what may not happen is a body that
// is not the sender's presented as if it were: a client that is answered 200 has the target's exact
// body (response side), a target that is contacted has the client's exact body (request side).
func c14SpillFault(t *testing.T, run *Run, desc any, side string, total int, chunked bool) {
	good := t.TempDir()
	old := os.Getenv("TMPDIR")
	os.Setenv("TMPDIR", good)
	defer os.Setenv("TMPDIR", old)
	w := NewWorld(t, WorldOpt{})
	defer w.Close()
	w.MaxClientLife = 30 * time.Second
	run.Eval()
	body := c13Bytes("c14fault", total, total)
	var mu sync.Mutex
	var got []*RawMsg
	w.AddTarget("sf:80", nil).RawServe = func(ft *FakeTarget, c net.Conn) {
		br := bufio.NewReader(c)
		for {
			m, err := readRawRequest(br)
			if err != nil {
				return
			}
			mu.Lock()
			got = append(got, m)
			mu.Unlock()
			if !w.sleep(OffTarget) {
				return
			}
			if side == "request" {
				fmt.Fprintf(c, "HTTP/1.1 200 OK\r\nContent-Length: 2\r\n\r\nok")
				continue
			}
			if chunked {
				fmt.Fprintf(c, "HTTP/1.1 200 OK\r\nTransfer-Encoding: chunked\r\n\r\n")
				for lo := 0; lo < len(body); lo += 50 {
					hi := min(lo+50, len(body))
					fmt.Fprintf(c, "%x\r\n%s\r\n", hi-lo, body[lo:hi])
				}
				fmt.Fprintf(c, "0\r\n\r\n")
			} else {
				fmt.Fprintf(c, "HTTP/1.1 200 OK\r\nContent-Length: %d\r\n\r\n%s", len(body), body)
			}
		}
	}
	to := DefTO
	to.BufferRequests, to.BufferResponses, to.MaxMemoryBufferSize = side == "request", side == "response", 64
	if c := w.Deploy("sf", []string{"sf:80"}, server.ServiceOptions{Hosts: []string{"sf.example"}}, to, 5*time.Second, time.Second); c.Err != "" {
		run.Inconclusive("setup deploy: %s", c.Err)
		return
	}
	os.Setenv("TMPDIR", filepath.Join(good, "no-such-directory"))
	conn, err := w.connect(false, "sf.example")
	if err != nil {
		run.Inconclusive("connect: %v", err)
		return
	}
	defer conn.Close()
	if side == "request" {
		if chunked {
			fmt.Fprintf(conn, "POST /u HTTP/1.1\r\nHost: sf.example\r\nTransfer-Encoding: chunked\r\nConnection: close\r\n\r\n")
			for lo := 0; lo < len(body); lo += 50 {
				hi := min(lo+50, len(body))
				fmt.Fprintf(conn, "%x\r\n%s\r\n", hi-lo, body[lo:hi])
			}
			fmt.Fprintf(conn, "0\r\n\r\n")
		} else {
			fmt.Fprintf(conn, "POST /u HTTP/1.1\r\nHost: sf.example\r\nContent-Length: %d\r\nConnection: close\r\n\r\n%s", len(body), body)
		}
	} else {
		fmt.Fprintf(conn, "GET /d HTTP/1.1\r\nHost: sf.example\r\nConnection: close\r\n\r\n")
	}
	status, complete := -1, false
	var respBody []byte
	if resp, rerr := readRawResponse(bufio.NewReader(conn), "GET"); rerr == nil {
		status, complete, respBody = resp.Status(), resp.BodyErr == "", resp.Body
	}
	conn.Close()
	time.Sleep(3 * time.Second)
	mu.Lock()
	defer mu.Unlock()
	fail := func(sig, format string, a ...any) {
		run.Violate("e2e:"+sig, fmt.Sprintf(format, a...), desc, func() []string { return w.Trace(60) })
	}
	if side == "response" && status == 200 && complete && !bytes.Equal(respBody, body) {
		fail("response-body-differs:spill-cannot-be-created", "the temporary file for a %d-byte response could not be created (buffer-memory 64); the client was answered 200 with a complete-looking body of %d bytes that is not the target's", total, len(respBody))
		return
	}
	if side == "request" {
		for _, m := range got {
			if strings.HasPrefix(m.Line, "POST ") && (!bytes.Equal(m.Body, body) || m.BodyErr != "") {
				fail("request-body-differs:spill-cannot-be-created", "the temporary file for a %d-byte request body could not be created (buffer-memory 64); the target was contacted with %d body bytes that are not the client's (client answered %d)", total, len(m.Body), status)
				return
			}
		}
	}
	run.Class(fmt.Sprintf("e2e|spill-fault|%s|total=%d|chunked=%v|status=%d|complete=%v|delivered=%d", side, total, chunked, status, complete, len(got)))
}

// c14RealDrop: the built binary (compiled with the repository's own Go toolchain - the standard
// library's ReverseProxy and Transport treat a request body differently from one Go release to the
// next, and the virtual-time worlds are compiled with a newer one), request buffering with a tiny
// buffer-memory, a target that reads a request on a kept-alive connection and then drops the
// connection without answering. If the proxy delivers the request again, every delivery carries the
// client's exact body; otherwise the client is told (502).
func c14RealDrop(t *testing.T, run *Run, desc any) {
	run.Eval()
	bin := os.Getenv("VERIF_BIN_KAMAL_PROXY")
	if bin == "" {
		run.Inconclusive("real binary not built (VERIF_BIN_KAMAL_PROXY unset)")
		return
	}
	ln, err := net.Listen("tcp", "127.0.0.1:0")
	if err != nil {
		run.Inconclusive("listen: %v", err)
		return
	}
	defer ln.Close()
	type seen struct {
		id   string
		body int
		sum  string
		err  string
	}
	var mu sync.Mutex
	var deliveries []seen
	dropped := map[string]bool{}
	go func() {
		for {
			c, err := ln.Accept()
			if err != nil {
				return
			}
			go func() {
				defer c.Close()
				br := bufio.NewReader(c)
				served := 0
				for {
					req, err := http.ReadRequest(br)
					if err != nil {
						return
					}
					b, rerr := io.ReadAll(req.Body)
					if req.URL.Path == "/up" {
						fmt.Fprintf(c, "HTTP/1.1 200 OK\r\nContent-Length: 0\r\n\r\n")
						continue
					}
					id := req.Header.Get("X-Id")
					mu.Lock()
					e := seen{id: id, body: len(b), sum: fmt.Sprintf("%x", sha256.Sum256(b))}
					if rerr != nil {
						e.err = rerr.Error()
					}
					deliveries = append(deliveries, e)
					drop := served > 0 && req.Header.Get("X-Drop") == "1" && !dropped[id]
					if drop {
						dropped[id] = true
					}
					mu.Unlock()
					if drop {
						return // read it on a reused connection, then die without answering
					}
					served++
					fmt.Fprintf(c, "HTTP/1.1 200 OK\r\nContent-Length: 2\r\n\r\nok")
				}
			}()
		}
	}()
	u := NewUniverse(t, bin)
	defer u.Cleanup()
	if err := u.Start(nil); err != nil {
		run.Inconclusive("proxy: %v", err)
		return
	}
	if out, code := u.CLI("deploy", "buf", "--target", ln.Addr().String(), "--host", "buf.example", "--buffer-requests", "--buffer-memory", "64"); code != 0 {
		run.Inconclusive("deploy failed: %s", out)
		return
	}
	RestoreHTTPDefaults() // a virtual-time world may have run in this process before
	tr := &http.Transport{}
	defer tr.CloseIdleConnections()
	hc := &http.Client{Timeout: 20 * time.Second, Transport: tr}
	send := func(id string, n int, chunked, drop bool) (int, error) {
		body := c13Bytes("c14real", len(id)+n, n)
		var rd io.Reader = bytes.NewReader(body)
		if chunked {
			rd = io.MultiReader(bytes.NewReader(body[:n/2]), bytes.NewReader(body[n/2:])) // unknown length: chunked
		}
		req, _ := http.NewRequest("POST", fmt.Sprintf("http://127.0.0.1:%d/x", u.HTTP), rd)
		req.Host = "buf.example"
		req.Header.Set("X-Id", id)
		req.Header.Set("Idempotency-Key", id)
		if drop {
			req.Header.Set("X-Drop", "1")
		}
		resp, err := hc.Do(req)
		if err != nil {
			return 0, err
		}
		io.Copy(io.Discard, resp.Body)
		resp.Body.Close()
		return resp.StatusCode, nil
	}
	want := map[string]string{}
	cases := 0
	for _, n := range []int{10, 64, 65, 200, 5000} {
		for _, chunked := range []bool{false, true} {
			warm := fmt.Sprintf("warm-%d-%v", n, chunked)
			if st, err := send(warm, 5, false, false); err != nil || st != 200 {
				run.Inconclusive("warm-up request failed: %v %d", err, st)
				return
			}
			id := fmt.Sprintf("d-%d-%v", n, chunked)
			b := c13Bytes("c14real", len(id)+n, n)
			want[id] = fmt.Sprintf("%x", sha256.Sum256(b))
			st, err := send(id, n, chunked, true)
			cases++
			if err == nil && st != 200 && st != 502 {
				run.Violate("real:dropped-connection-status", fmt.Sprintf("body %d bytes (chunked=%v), target dropped the reused connection: client got %d", n, chunked, st), desc, nil)
				return
			}
		}
	}
	mu.Lock()
	defer mu.Unlock()
	redelivered := 0
	for _, d := range deliveries {
		w, ok := want[d.id]
		if !ok {
			continue
		}
		redelivered++
		if d.sum != w {
			run.Violate("real:body-changed:redelivery", fmt.Sprintf("request %s: a delivery to the target carried %d body bytes (read error %q) that are not the client's body (buffer-memory 64)", d.id, d.body, d.err), desc, nil)
			return
		}
	}
	run.Count("real_drop_cases", cases)
	run.Count("real_deliveries_compared", redelivered)
	run.Class("real|dropped-reused-connection")
}

func c14RunE2E(t *testing.T, run *Run, sc c14E2E) {
	dir := t.TempDir()
	old := os.Getenv("TMPDIR")
	os.Setenv("TMPDIR", dir)
	defer os.Setenv("TMPDIR", old)
	w := NewWorld(t, WorldOpt{})
	defer w.Close()
	w.MaxClientLife = 30 * time.Second
	run.Eval()
	fail := func(sig, format string, a ...any) {
		run.Violate("e2e:"+sig, fmt.Sprintf(format, a...), sc, func() []string { return w.Trace(60) })
	}
	reqBody := c13Bytes("c14req", sc.Idx, sc.ReqLen)
	respBody := c13Bytes("c14resp", sc.Idx, sc.RespLen)
	var mu sync.Mutex
	var tFirstByte, tRespLast, tSSE2 time.Duration = -1, -1, -1
	var spillAtTarget string
	var gotReq *RawMsg
	contacted := false
	ft := w.AddTarget("buf:80", nil)
	var inPrelude atomic.Bool
	ft.RawServe = func(ft *FakeTarget, c net.Conn) {
		br := bufio.NewReader(c)
		if _, err := br.Peek(1); err != nil {
			return
		}
		if inPrelude.Load() {
			// the earlier exchange: a response larger than max-response-body
			if _, err := readRawRequest(br); err != nil || !w.sleep(OffTarget) {
				return
			}
			fmt.Fprintf(c, "HTTP/1.1 200 OK\r\nContent-Length: %d\r\nConnection: close\r\n\r\n", sc.MaxResp+100)
			c.Write(bytes.Repeat([]byte("p"), int(sc.MaxResp)+100))
			return
		}
		mu.Lock()
		contacted = true
		tFirstByte = w.Now()
		if sc.BufReq {
			spillAtTarget = c14Inv(dir, int64(sc.ReqLen), sc.MaxMem, false)
		}
		mu.Unlock()
		m, err := readRawRequest(br)
		if err != nil {
			return
		}
		mu.Lock()
		gotReq = m
		mu.Unlock()
		if !w.sleep(OffTarget) {
			return
		}
		switch sc.Ending {
		case "target-close-before":
			return
		case "sse":
			fmt.Fprintf(c, "HTTP/1.1 200 OK\r\nContent-Type: text/event-stream; charset=utf-8\r\nTransfer-Encoding: chunked\r\n\r\n7\r\ndata: 1\r\n")
			if !w.sleep(time.Second) {
				return
			}
			mu.Lock()
			tSSE2 = w.Now()
			mu.Unlock()
			fmt.Fprintf(c, "7\r\ndata: 2\r\n0\r\n\r\n")
			return
		case "upgrade":
			fmt.Fprintf(c, "HTTP/1.1 101 Switching Protocols\r\nConnection: Upgrade\r\nUpgrade: websocket\r\n\r\n")
			buf := make([]byte, 64)
			for {
				n, err := br.Read(buf)
				if n > 0 {
					c.Write(buf[:n])
				}
				if err != nil {
					return
				}
			}
		}
		// headers first, then the body in pieces with virtual gaps
		for i := 0; i < sc.Hints; i++ {
			fmt.Fprintf(c, "HTTP/1.1 103 Early Hints\r\nLink: </s%d.css>; rel=preload\r\n\r\n", i)
		}
		fmt.Fprintf(c, "HTTP/1.1 %d Status\r\nContent-Length: %d\r\nX-Target: buf\r\n\r\n", sc.Status, len(respBody))
		if sc.Ending == "head" {
			// the answer to a HEAD request declares the entity's length but carries no body
			br.Peek(1)
			return
		}
		k := sc.RespCh
		for i := 0; i < k; i++ {
			lo, hi := len(respBody)*i/k, len(respBody)*(i+1)/k
			if sc.Ending == "target-truncates" && i == k-1 {
				return // close with the last piece missing
			}
			if hi > lo {
				if _, err := c.Write(respBody[lo:hi]); err != nil {
					return
				}
			}
			mu.Lock()
			tRespLast = w.Now()
			mu.Unlock()
			if i < k-1 && !w.sleep(sc.Gap) {
				return
			}
		}
		if sc.Ending == "target-truncates" && len(respBody) == 0 {
			return
		}
		// keep-alive: wait for the proxy to close or reuse
		br.Peek(1)
	}
	to := DefTO
	to.BufferRequests, to.BufferResponses = sc.BufReq, sc.BufResp
	to.MaxMemoryBufferSize, to.MaxRequestBodySize, to.MaxResponseBodySize = sc.MaxMem, sc.MaxReq, sc.MaxResp
	if c := w.Deploy("svc", []string{"buf:80"}, DefSO, to, 5*time.Second, time.Second); c.Err != "" {
		run.Inconclusive("setup: %s", c.Err)
		return
	}
	if sc.Prelude {
		inPrelude.Store(true)
		r := w.Do(Req{ID: "prelude", Host: "c14.example", Path: "/pre"})
		inPrelude.Store(false)
		if r.Status != 500 {
			fail("no-500:prelude", "response of %d bytes > max-response-body %d: status %d", sc.MaxResp+100, sc.MaxResp, r.Status)
			return
		}
		time.Sleep(time.Second)
	}
	// ---- client ----
	conn, err := w.connect(false, "")
	if err != nil {
		run.Inconclusive("connect: %v", err)
		return
	}
	method := "POST"
	head := fmt.Sprintf("%s /b HTTP/1.1\r\nHost: c14.example\r\nContent-Length: %d\r\n", method, len(reqBody))
	if sc.ReqChunked {
		head = fmt.Sprintf("%s /b HTTP/1.1\r\nHost: c14.example\r\nTransfer-Encoding: chunked\r\n", method)
	}
	if sc.Ending == "head" {
		head = "HEAD /b HTTP/1.1\r\nHost: c14.example\r\n"
		reqBody = nil
	}
	if sc.Ending == "upgrade" {
		head = "GET /ws HTTP/1.1\r\nHost: c14.example\r\nConnection: Upgrade\r\nUpgrade: websocket\r\n"
		reqBody = nil
	}
	if sc.AskUpgrade != "" {
		head += "Connection: Upgrade\r\nUpgrade: " + sc.AskUpgrade + "\r\n"
	}
	var tLastWrite time.Duration
	upDone := make(chan struct{})
	go func() {
		defer close(upDone)
		conn.Write([]byte(head + "\r\n"))
		k := sc.ReqCh
		for i := 0; i < k; i++ {
			lo, hi := len(reqBody)*i/k, len(reqBody)*(i+1)/k
			if sc.Ending == "client-abort-upload" && i == k-1 && len(reqBody) > 0 {
				conn.Close()
				return
			}
			if hi > lo {
				piece := reqBody[lo:hi]
				if sc.ReqChunked {
					piece = append(append([]byte(fmt.Sprintf("%x\r\n", hi-lo)), piece...), '\r', '\n')
					if i == k-1 {
						piece = append(piece, "0\r\n\r\n"...)
					}
				}
				if _, err := conn.Write(piece); err != nil {
					return
				}
				mu.Lock()
				tLastWrite = w.Now()
				mu.Unlock()
			}
			if i < k-1 {
				time.Sleep(sc.Gap)
			}
		}
	}()
	br := bufio.NewReader(conn)
	var resp *RawMsg
	var tFirstRespByte time.Duration = -1
	var spillAtClient string
	var tSSE1 time.Duration = -1
	upgradeEcho := false
	func() {
		if _, err := br.Peek(1); err != nil {
			return
		}
		tFirstRespByte = w.Now()
		m, err := readRawHead(br)
		for err == nil && m.Status() >= 100 && m.Status() < 200 && m.Status() != 101 {
			// informational responses precede the response (and may be relayed before it is complete)
			if _, err = br.Peek(1); err != nil {
				break
			}
			tFirstRespByte = w.Now()
			m, err = readRawHead(br)
		}
		if err != nil {
			return
		}
		resp = m
		switch {
		case sc.Ending == "upgrade" && m.Status() == 101:
			go conn.Write([]byte("ping"))
			b := make([]byte, 4)
			if _, err := io.ReadFull(br, b); err == nil && string(b) == "ping" {
				upgradeEcho = true
			}
			return
		case sc.Ending == "sse" && m.Status() == 200:
			// first event must arrive while the target still holds the response open
			l1, _ := readLine(br) // chunk size
			l2, _ := readLine(br)
			if strings.TrimSpace(l1) != "" && strings.Contains(l2, "data: 1") {
				tSSE1 = w.Now()
			}
			for { // rest of the chunked stream, up to its terminating chunk
				l, err := readLine(br)
				if err != nil || strings.TrimSpace(l) == "0" {
					break
				}
			}
			return
		}
		if sc.BufResp && m.Status() == sc.Status && sc.RespLen > 16384 {
			// the proxy is inside Send now (pipe writes block until read, and the body is larger than
			// net/http's own 4 KiB write buffer): the spill file still exists
			if _, err := br.Peek(1); err == nil {
				spillAtClient = c14Inv(dir, int64(sc.RespLen), sc.MaxMem, false)
			}
		}
		if sc.Ending == "client-abort-download" || sc.Ending == "head" {
			conn.Close()
			return
		}
		readRawBody(br, m, false, true)
	}()
	conn.Close()
	<-upDone
	time.Sleep(2 * time.Second) // everything about this request has ended by now
	mu.Lock()
	defer mu.Unlock()
	// ---- oracle ----
	if n, _ := c14Spills(dir); n != 0 {
		fail("spill-left-behind:"+sc.Ending, "%d spill files left in TMPDIR after the request ended (%s)", n, sc.Ending)
		return
	}
	reqTooBig := sc.BufReq && sc.MaxReq > 0 && int64(sc.ReqLen) > sc.MaxReq
	respTooBig := sc.BufResp && sc.MaxResp > 0 && int64(sc.RespLen) > sc.MaxResp
	class := fmt.Sprintf("e2e|req=%v|chunked=%v|resp=%v|pre=%v|ask=%v|%s|reqBig=%v|respBig=%v|reqSpill=%v|respSpill=%v", sc.BufReq, sc.ReqChunked, sc.BufResp, sc.Prelude, sc.AskUpgrade != "", sc.Ending, reqTooBig, respTooBig, int64(sc.ReqLen) > sc.MaxMem, int64(sc.RespLen) > sc.MaxMem)
	switch sc.Ending {
	case "upgrade":
		if resp == nil || resp.Status() != 101 || !upgradeEcho {
			fail("upgrade-not-passed-through", "upgrade through a buffering service: response %v echo=%v", resp, upgradeEcho)
			return
		}
		run.Class(class)
		return
	case "client-abort-upload", "client-abort-download":
		run.Class(class)
		return
	}
	if reqTooBig {
		if resp == nil || resp.Status() != 413 {
			fail("no-413", "request body %d > max-request-body %d: response %+v", sc.ReqLen, sc.MaxReq, resp)
			return
		}
		if contacted {
			fail("target-contacted-on-413", "request body %d > max-request-body %d but the target was contacted", sc.ReqLen, sc.MaxReq)
			return
		}
		run.Class(class)
		return
	}
	if !contacted || gotReq == nil {
		fail("not-forwarded", "request within limits was not forwarded: response %+v", resp)
		return
	}
	if sc.BufReq {
		if tFirstByte < tLastWrite {
			fail("target-contacted-before-body-complete", "target saw its first byte at %v, the client wrote its last body byte at %v", tFirstByte, tLastWrite)
			return
		}
		if spillAtTarget != "" {
			fail("memory-bound:request", "when the target was contacted: %s", spillAtTarget)
			return
		}
	}
	if !bytes.Equal(gotReq.Body, reqBody) {
		fail("request-body-differs", "target received %d bytes, client sent %d", len(gotReq.Body), len(reqBody))
		return
	}
	switch sc.Ending {
	case "target-close-before":
		if resp == nil || resp.Status() != 502 {
			fail("target-error-status", "target closed without answering: response %+v", resp)
			return
		}
	case "target-truncates":
		if resp != nil && resp.Status() == sc.Status && resp.BodyErr == "" && len(resp.Body) != len(respBody) && sc.RespLen > 0 {
			fail("truncation-presented-as-complete", "target cut its body short; client got a complete-looking response of %d bytes", len(resp.Body))
			return
		}
	case "head":
		// The body of the answer to a HEAD request is empty, so no limit can apply to it: the client
		// gets the target's status and headers, declared length included, whatever the limits are.
		if resp == nil || resp.Status() != sc.Status || resp.First("X-Target") != "buf" || resp.First("Content-Length") != fmt.Sprint(len(respBody)) {
			fail("head-response-differs", "HEAD answered by the target with %d and Content-Length %d (max-response-body %d): client got %+v", sc.Status, len(respBody), sc.MaxResp, resp)
			return
		}
	case "sse":
		if resp == nil || resp.Status() != 200 || tSSE1 < 0 || tSSE2 < 0 || tSSE1 >= tSSE2 {
			fail("sse-buffered", "event stream: first event reached the client at %v, the target sent the second one at %v (response %+v)", tSSE1, tSSE2, resp)
			return
		}
	case "ok":
		if respTooBig {
			if resp == nil || resp.Status() != 500 {
				fail("no-500", "response body %d > max-response-body %d: response %+v", sc.RespLen, sc.MaxResp, resp)
				return
			}
			if sc.RespLen >= 16 && bytes.Contains(resp.Body, respBody[:16]) {
				fail("overflowing-body-leaked", "the 500 for an oversized response contains part of the target's body")
				return
			}
			break
		}
		if resp == nil || resp.Status() != sc.Status || resp.First("X-Target") != "buf" || !bytes.Equal(resp.Body, respBody) {
			fail("response-differs", "target sent %d with %d bytes; client got %+v body %d bytes", sc.Status, len(respBody), resp, func() int {
				if resp != nil {
					return len(resp.Body)
				}
				return -1
			}())
			return
		}
		if sc.BufResp && sc.RespLen > 0 {
			if tFirstRespByte < tRespLast {
				fail("response-sent-before-complete", "client saw the first response byte at %v, the target wrote its last body byte at %v", tFirstRespByte, tRespLast)
				return
			}
			if spillAtClient != "" {
				fail("memory-bound:response", "while the response was being delivered: %s", spillAtClient)
				return
			}
		}
	}
	run.Class(class)
	run.Sample(sc)
}
