package verifharness

// C07 A paused service holds requests and releases them intact.
// C08 shares the timeline model (stopped state), see c08_test.go.

import (
	"bytes"
	"fmt"
	"math/rand/v2"
	"sort"
	"strings"
	"testing"
	"testing/synctest"
	"time"
)

type tlCmd struct {
	At   time.Duration `json:"at"`
	Kind string        `json:"kind"` // pause resume stop deploy rollout-deploy rollout-set rollout-stop
	Max  time.Duration `json:"max_pause,omitempty"`
	Msg  string        `json:"msg,omitempty"`
	Gen  int           `json:"gen,omitempty"`
	// Slow (deploy only): the new targets need this long for their first probe, so the deploy is
	// still waiting for them when the next command (a pause, stop, resume or rollout command) is
	// issued and acknowledged; the new targets take over at At+Slow
	Slow time.Duration `json:"slow,omitempty"`
}

type tlReq struct {
	ID     string        `json:"id"`
	At     time.Duration `json:"at"`
	Method string        `json:"method"`
	Path   string        `json:"path"`
	Body   int           `json:"body"`
	Cookie bool          `json:"cookie"`
	D2     time.Duration `json:"gate_delay,omitempty"` // placed: delay after passing the gate
	Lat    time.Duration `json:"latency,omitempty"`    // target latency (keeps a drain open)
}

type tlState struct {
	State   string // running paused stopped
	Max     time.Duration
	Msg     string
	Active  int
	Rollout int
	Split   bool
}

func (s *tlState) apply(c tlCmd) {
	switch c.Kind {
	case "pause":
		s.State, s.Max, s.Msg = "paused", c.Max, ""
	case "resume":
		s.State, s.Msg = "running", ""
	case "stop":
		s.State, s.Msg = "stopped", c.Msg
	case "deploy":
		s.Active = c.Gen
	case "rollout-deploy":
		s.Rollout = c.Gen
	case "rollout-set":
		if s.Rollout > 0 {
			s.Split = true
		}
	case "rollout-stop":
		s.Split = false
	}
}

func tlStateAt(cmds []tlCmd, at time.Duration, inclusive bool) tlState {
	s := tlState{State: "running", Active: 1}
	for _, c := range cmds {
		t := c.At + c.Slow // a slow deploy takes effect when its targets have become healthy
		if t < at || (inclusive && t == at) {
			s.apply(c)
		}
	}
	return s
}

type tlExp struct {
	Kind string // fwd 503 504 proxy200
	At   time.Duration
	Side string // "a<g>" or "r<g>"
	Msg  string
}

func (s tlState) side(cookie bool) string {
	if cookie && s.Split && s.Rollout > 0 {
		return fmt.Sprintf("r%d", s.Rollout)
	}
	return fmt.Sprintf("a%d", s.Active)
}

// tlExpect returns the outcomes the statement allows for a request, or tie.
func tlExpect(cmds []tlCmd, r tlReq, healthPath string) (cands []tlExp, tie bool) {
	st := tlStateAt(cmds, r.At, false)
	if st.State != "running" && r.Method == "GET" && r.Path == healthPath {
		return []tlExp{{Kind: "proxy200", At: r.At}}, false
	}
	switch st.State {
	case "running":
		return []tlExp{{Kind: "fwd", At: r.At, Side: st.side(r.Cookie)}}, false
	case "stopped":
		return []tlExp{{Kind: "503", At: r.At, Msg: st.Msg}}, false
	}
	// paused: find the release, and every max-pause that may apply to this request
	limits := []time.Duration{st.Max}
	var rel *tlCmd
	for i := range cmds {
		c := cmds[i]
		if c.At <= r.At {
			continue
		}
		if c.Kind == "pause" {
			limits = append(limits, c.Max)
		}
		if c.Kind == "resume" || c.Kind == "stop" {
			rel = &cmds[i]
			break
		}
	}
	for _, L := range limits {
		t504 := r.At + L
		if rel == nil {
			cands = append(cands, tlExp{Kind: "504", At: t504})
			continue
		}
		if absDur(t504-rel.At) < 2*Eps {
			return nil, true
		}
		if t504 < rel.At {
			cands = append(cands, tlExp{Kind: "504", At: t504})
		} else if rel.Kind == "stop" {
			cands = append(cands, tlExp{Kind: "503", At: rel.At, Msg: rel.Msg})
		} else {
			after := tlStateAt(cmds, rel.At, true)
			cands = append(cands, tlExp{Kind: "fwd", At: rel.At, Side: after.side(r.Cookie)})
		}
	}
	return cands, false
}

type c07Scenario struct {
	Idx    int     `json:"idx"`
	NT     int     `json:"n_targets"`
	Cmds   []tlCmd `json:"cmds"`
	Reqs   []tlReq `json:"reqs"`
	Placed bool    `json:"placed"`
	// Prefix: the service is deployed below this path prefix (with or without prefix stripping) and
	// every request is spelled below it; "<prefix>/up" is then an ordinary request, held like any other.
	Prefix string `json:"path_prefix,omitempty"`
	Strip  bool   `json:"strip_prefix,omitempty"`
}

func tlGenCmds(rng *rand.Rand, n int, kinds []string, msgs []string) []tlCmd {
	var cmds []tlCmd
	st := tlState{State: "running", Active: 1}
	genA, genR := 1, 0
	for i := 0; i < n; i++ {
		c := tlCmd{At: time.Duration(i+1) * time.Second, Kind: pick(rng, kinds)}
		switch c.Kind {
		case "pause":
			c.Max = pick(rng, []time.Duration{300 * time.Millisecond, 1500 * time.Millisecond, 2500 * time.Millisecond, 10 * time.Second, 100 * time.Second})
		case "stop":
			c.Msg = pick(rng, msgs)
		case "deploy":
			genA++
			c.Gen = genA
		case "rollout-deploy":
			genR++
			c.Gen = genR
		case "rollout-set":
			if st.Rollout == 0 {
				genR++
				c.Kind, c.Gen = "rollout-deploy", genR
			}
		}
		st.apply(c)
		cmds = append(cmds, c)
	}
	// some deploys are slow, unless the next command is another deploy of some kind (overlapping
	// deploys of one service are C17's subject and have no fixed order of taking effect)
	for i := range cmds {
		next := ""
		if i+1 < len(cmds) {
			next = cmds[i+1].Kind
		}
		if cmds[i].Kind == "deploy" && next != "deploy" && next != "rollout-deploy" && rng.IntN(3) == 0 {
			cmds[i].Slow = 1500*time.Millisecond + 50*time.Microsecond
		}
	}
	// final resume so that everything held is released before the scenario ends
	cmds = append(cmds, tlCmd{At: time.Duration(n+2) * time.Second, Kind: "resume"})
	return cmds
}

func c07Gen(rng *rand.Rand, idx int) c07Scenario {
	sc := c07Scenario{Idx: idx, NT: 1 + rng.IntN(2)}
	if idx%4 == 1 || idx%4 == 3 {
		sc.Prefix, sc.Strip = "/svc", idx%4 == 1
	}
	kinds := []string{"pause", "pause", "pause", "resume", "resume", "stop", "deploy", "deploy", "rollout-deploy", "rollout-set", "rollout-stop"}
	n := 4 + rng.IntN(9)
	sc.Cmds = tlGenCmds(rng, n, kinds, []string{"", "maintenance", "back <soon> & \"later\""})
	horizon := time.Duration(n+1) * time.Second
	nr := 1 + rng.IntN(30)
	sc.Placed = rng.IntN(4) == 0
	for i := 0; i < nr; i++ {
		r := tlReq{ID: fmt.Sprintf("h%d", i), Method: "GET", Path: "/app/x", Cookie: rng.IntN(3) == 0}
		r.At = 500*time.Millisecond + time.Duration(rng.Int64N(int64(horizon/(10*time.Millisecond))))*10*time.Millisecond + OffArrival
		switch rng.IntN(8) {
		case 0:
			r.Path = "/up" // health path, GET
		case 1:
			r.Method, r.Path, r.Body = "POST", "/up", 10
		case 2, 3:
			r.Method, r.Body = "POST", pick(rng, []int{1, 100, 4096, 65536})
		}
		if sc.Placed {
			// arrive just before a command and linger between gate and claim
			c := pick(rng, sc.Cmds)
			r.At = c.At - time.Duration(1+rng.IntN(5))*time.Millisecond + OffArrival
			r.D2 = time.Duration(1+rng.IntN(12))*time.Millisecond + OffHook
			// a slower request already in flight keeps the command's drain open across the claim
			if rng.IntN(2) == 0 { // otherwise the targets are idle: the command's drain is over at once, well before the claim
				sc.Reqs = append(sc.Reqs, tlReq{ID: fmt.Sprintf("s%d", i), Method: "GET", Path: "/app/slow", At: r.At - 7*time.Millisecond, Lat: time.Duration(20+rng.IntN(50))*time.Millisecond + OffTarget})
			}
		}
		sc.Reqs = append(sc.Reqs, r)
	}
	return sc
}

func TestC07(t *testing.T) {
	run := NewRun(t, "C07")
	defer run.Finish()
	n := run.N(1600, 40000)
	for i := 0; i < n; i++ {
		sc := c07Gen(run.Rand(i), i)
		if !run.Mine(i, sc) {
			continue
		}
		synctest.Test(t, func(t *testing.T) { c07Run(t, run, sc) })
	}
	// pause (stop) commands whose drains overlap, requests held afterwards, resume (the scenario of C08)
	for k := 0; k < run.N(24, 600); k++ {
		desc := map[string]any{"idx": k, "kind": "overlapping-drains-then-resume"}
		if !run.Mine(n+4000+k, desc) {
			continue
		}
		synctest.Test(t, func(t *testing.T) { c08Overlap(t, run, k, run.Rand(n+4000+k)) })
	}
	for k := 0; k < run.N(32, 800); k++ {
		desc := map[string]any{"idx": k, "kind": "resume-then-pause-at-once"}
		if !run.Mine(n+k, desc) {
			continue
		}
		synctest.Test(t, func(t *testing.T) { c07ResumePause(t, run, k, run.Rand(n+k)) })
	}
	// "on stop it is answered 503 with the stop message", at the gate itself and under sustained
	// contention (the scenario of C08): a Wait() released by a stop reports that stop's message and
	// never "proceed", whatever command follows the stop
	for k := 0; k < run.N(8, 160); k++ {
		desc := map[string]any{"idx": k, "kind": "gate-level-stop-pause-alternation"}
		if !run.Mine(n+12000+k, desc) {
			continue
		}
		c08GateHammer(run, k, run.Rand(n+12000+k))
	}
	for k := 0; k < run.N(6, 120); k++ {
		desc := map[string]any{"idx": k, "kind": "held-then-stopped-twice"}
		if !run.Mine(n+8000+k, desc) {
			continue
		}
		synctest.Test(t, func(t *testing.T) { c07StopStop(t, run, k, run.Rand(n+8000+k), desc) })
	}
}

// c07StopStop: requests held by a pause are answered by a stop with that stop's message; the
// operator then stops the service again with another message (no resume in between): requests held
// by a later pause, or arriving while stopped, get the message of the stop in force.
func c07StopStop(t *testing.T, run *Run, idx int, rng *rand.Rand, desc any) {
	w := NewWorld(t, WorldOpt{})
	defer w.Close()
	run.Eval()
	const svc = "svc"
	w.AddTarget("ss-t0:80", nil)
	if c := w.Deploy(svc, []string{"ss-t0:80"}, DefSO, DefTO, 5*time.Second, time.Second); c.Err != "" {
		run.Inconclusive("setup failed: %s", c.Err)
		return
	}
	msgs := [][2]string{{"first notice", "second <b>notice</b> & more"}, {"", "now with a message"}, {"only the first has one", ""}}[idx%3]
	fromPaused := idx%2 == 0
	if fromPaused {
		w.At(time.Second, func() { w.Pause(svc, time.Second, 100*time.Second) })
	}
	nheld := 1 + rng.IntN(5)
	for k := 0; k < nheld; k++ {
		w.GoReq(1500*time.Millisecond+time.Duration(k)*10*time.Millisecond+OffArrival, Req{ID: fmt.Sprintf("held%d", k), Host: "c07.example", Path: "/x"})
	}
	w.At(3*time.Second, func() { w.Stop(svc, time.Second, msgs[0]) })
	w.GoReq(3500*time.Millisecond+OffArrival, Req{ID: "between0", Host: "c07.example", Path: "/x"})
	w.At(4*time.Second, func() { w.Stop(svc, time.Second, msgs[1]) })
	w.GoReq(4500*time.Millisecond+OffArrival, Req{ID: "after0", Host: "c07.example", Path: "/x"})
	w.GoReq(4600*time.Millisecond+OffArrival, Req{ID: "after1", Method: "POST", Host: "c07.example", Path: "/up", Body: []byte("x")})
	w.At(6*time.Second, func() { w.Resume(svc) })
	w.GoReq(6500*time.Millisecond+OffArrival, Req{ID: "resumed0", Host: "c07.example", Path: "/x"})
	w.Wait()
	for _, r := range w.RespLog() {
		want, msg := 503, msgs[0]
		switch {
		case strings.HasPrefix(r.ID, "held") && !fromPaused:
			want = 200 // the service was running when they arrived
		case strings.HasPrefix(r.ID, "after"):
			msg = msgs[1]
		case strings.HasPrefix(r.ID, "resumed"):
			want = 200
		}
		if r.Status != want {
			run.Violate(fmt.Sprintf("stopped-twice:%s:want-%d:got-%d", strings.TrimRight(r.ID, "0123456789"), want, r.Status), fmt.Sprintf("request %s (stop %q at 3s, stop %q at 4s, resume at 6s; held by a pause first: %v) got status %d, expected %d", r.ID, msgs[0], msgs[1], fromPaused, r.Status, want), desc, func() []string { return w.Trace(100) })
			return
		}
		if want == 503 {
			if bad := c08CheckBody(string(r.Body), msg, ""); bad != "" {
				run.Violate("stopped-twice:message:"+strings.TrimRight(r.ID, "0123456789"), fmt.Sprintf("request %s (stop %q at 3s, stop %q at 4s; held by a pause first: %v) was answered 503, but not with the message of the stop in force (%q): %s", r.ID, msgs[0], msgs[1], fromPaused, msg, bad), desc, func() []string { return w.Trace(100) })
				return
			}
		}
	}
	run.Class(fmt.Sprintf("stop-stop|paused-first=%v|msgs=%d|held=%d", fromPaused, idx%3, nheld))
}

// c07ResumePause: requests are held; the operator resumes and pauses again at once (the second
// command is issued the moment the first has returned, before the woken requests have run). A held
// request is then either forwarded by the resume or held on by the new pause and forwarded by the
// final resume; the service was never stopped and no max-pause has expired, so nothing else.
func c07ResumePause(t *testing.T, run *Run, idx int, rng *rand.Rand) {
	w := NewWorld(t, WorldOpt{})
	defer w.Close()
	run.Eval()
	const svc = "svc"
	nt := 1 + rng.IntN(2)
	var names []string
	for i := 0; i < nt; i++ {
		names = append(names, fmt.Sprintf("rp%d-t%d:80", idx%5, i))
		w.AddTarget(names[i], nil)
	}
	if c := w.Deploy(svc, names, DefSO, DefTO, 5*time.Second, time.Second); c.Err != "" {
		run.Inconclusive("setup failed: %s", c.Err)
		return
	}
	nreq := 1 + rng.IntN(40)
	w.At(time.Second, func() { w.Pause(svc, time.Second, 100*time.Second) })
	for k := 0; k < nreq; k++ {
		w.GoReq(1500*time.Millisecond+time.Duration(rng.IntN(400))*time.Millisecond+OffArrival, Req{ID: fmt.Sprintf("h%d", k), Host: "c07.example", Path: "/x"})
	}
	rounds := 1 + rng.IntN(3)
	T := 3 * time.Second
	w.At(T, func() {
		for i := 0; i < rounds; i++ {
			w.Resume(svc)
			w.Pause(svc, time.Second, 100*time.Second)
		}
	})
	tFinal := T + 2*time.Second
	w.At(tFinal, func() { w.Resume(svc) })
	w.Wait()
	for _, c := range w.Cmds {
		if c.Panic != "" || c.Err != "" {
			run.Violate("command-failed:"+c.Name, fmt.Sprintf("command %s failed: %s %s", c.Name, c.Err, c.Panic), map[string]any{"idx": idx}, func() []string { return w.Trace(200) })
			return
		}
	}
	again := 0
	for _, r := range w.RespLog() {
		okAt := near(r.Done, T) || near(r.Done, tFinal)
		if r.Status != 200 || r.Target == "" || !okAt {
			// where it was lost: turned away by a target that a pause had put into the draining state
			// (its claim came back with an error), or never got as far as a claim
			where := "refused-before-any-claim"
			for _, h := range w.Hooks {
				if h.Point == "lb.claimed" && h.Req == r.ID && strings.Contains(h.Extra, "err=") {
					where = "claim-refused-by-draining-target"
				}
			}
			run.Violate(fmt.Sprintf("held-request-lost:resume-then-pause:got-%d:%s", r.Status, where), fmt.Sprintf("request %s was held (pause at 1s, max-pause 100s); resume and pause were issued back to back %d times at %v, the final resume at %v: it got status=%d target=%q at %v (the service was never stopped)", r.ID, rounds, T, tFinal, r.Status, r.Target, r.Done), map[string]any{"idx": idx, "requests": nreq, "rounds": rounds}, func() []string { return w.Trace(200) })
			return
		}
		if near(r.Done, tFinal) {
			again++
		}
	}
	run.Count("held_again_by_the_second_pause", again)
	run.Class(fmt.Sprintf("resume-pause|rounds%d|held-again=%v", rounds, again > 0))
}

// tlSlowFirstProbe makes the first probe of each target take d (the later ones answer at once).
func tlSlowFirstProbe(w *World, names []string, d time.Duration) {
	if d <= 0 {
		return
	}
	for _, n := range names {
		w.Target(n).Probe = func(k int, at time.Duration) ProbeAct {
			if k == 0 {
				return ProbeAct{Status: 200, Delay: d}
			}
			return ProbeAct{Status: 200}
		}
	}
}

func tlBody(id string, n int) []byte {
	if n == 0 {
		return nil
	}
	b := bytes.Repeat([]byte(id+"|"), n/(len(id)+1)+1)
	return b[:n]
}

func c07Run(t *testing.T, run *Run, sc c07Scenario) {
	w := NewWorld(t, WorldOpt{})
	defer w.Close()
	const svc = "svc"
	to := DefTO
	mk := func(tag string, g int) []string {
		var out []string
		for i := 0; i < sc.NT; i++ {
			name := fmt.Sprintf("%s%d-t%d:80", tag, g, i)
			w.AddTarget(name, nil)
			out = append(out, name)
		}
		return out
	}
	so, hcPath := DefSO, "/up"
	if sc.Prefix != "" {
		so.PathPrefixes, so.StripPrefix = []string{sc.Prefix}, sc.Strip
		hcPath = "\x00no request path is the health-check path"
	}
	if c := w.Deploy(svc, mk("a", 1), so, to, 5*time.Second, time.Second); c.Err != "" {
		run.Inconclusive("setup failed: %s", c.Err)
		return
	}
	for _, c := range sc.Cmds {
		c := c
		w.At(c.At, func() {
			var rec *CmdRec
			switch c.Kind {
			case "pause":
				rec = w.Pause(svc, time.Second, c.Max)
			case "resume":
				rec = w.Resume(svc)
			case "stop":
				rec = w.Stop(svc, time.Second, c.Msg)
			case "deploy":
				names := mk("a", c.Gen)
				tlSlowFirstProbe(w, names, c.Slow)
				rec = w.Deploy(svc, names, so, to, 5*time.Second, time.Second)
			case "rollout-deploy":
				rec = w.RolloutDeploy(svc, mk("r", c.Gen), 5*time.Second, time.Second)
			case "rollout-set":
				rec = w.RolloutSet(svc, 100, nil)
			case "rollout-stop":
				rec = w.RolloutStop(svc)
			}
			_ = rec
		})
	}
	for _, r := range sc.Reqs {
		req := Req{ID: r.ID, Method: r.Method, Host: "c07.example", Lat: r.Lat, Path: r.Path + "?q=" + r.ID + "&x=a;b", Body: tlBody(r.ID, r.Body),
			Hdr: [][2]string{{"X-Multi", "one"}, {"X-Multi", "two"}, {"X-Empty", ""}}}
		if r.Path == "/up" {
			req.Path = "/up"
		}
		req.Path = sc.Prefix + req.Path
		if r.Cookie {
			req.Hdr = append(req.Hdr, [2]string{"Cookie", "kamal-rollout=u1"})
		}
		if r.D2 > 0 {
			// the request lingers either right after the gate or right before its claim (whatever the
			// code does in between - nothing of duration - is then on the far side of the delay)
			if len(r.ID)%2 == 0 {
				w.SetReqDelay(r.ID, "service.gate.passed", r.D2)
			} else {
				w.SetReqDelay(r.ID, "lb.claiming", r.D2)
			}
		}
		w.GoReq(r.At, req)
	}
	w.Wait()

	// ---------- oracle ----------
	run.Eval()
	fail := func(sig, format string, a ...any) {
		run.Violate(sig, fmt.Sprintf(format, a...), sc, func() []string { return w.Trace(300) })
	}
	for _, c := range w.Cmds {
		if c.Panic != "" {
			fail("panic:"+c.Name, "command %s panicked: %s", c.Name, c.Panic)
			return
		}
		if c.Err != "" {
			fail("command-failed:"+c.Name, "command %s %s failed: %s", c.Name, c.Args, c.Err)
			return
		}
		if c.Ret-c.Issue > Eps {
			run.Count("slow_commands", 1)
		}
	}
	resps := map[string]Resp{}
	for _, r := range w.RespLog() {
		resps[r.ID] = r
	}
	treqs := map[string]ReqRec{}
	for _, ft := range w.Targets {
		for _, q := range ft.ReqLog() {
			if _, dup := treqs[q.ID]; dup {
				fail("forwarded-twice", "request %s was forwarded more than once", q.ID)
				return
			}
			treqs[q.ID] = q
		}
	}
	held, kinds := 0, map[string]bool{}
	for _, r := range sc.Reqs {
		got, ok := resps[r.ID]
		if !ok {
			run.Inconclusive("no client record for %s", r.ID)
			return
		}
		cands, tie := tlExpect(sc.Cmds, r, hcPath)
		if r.D2 > 0 {
			// placed in the gate/claim window of a command: the request counts as having arrived
			// either before the command (when it passed the gate) or after it (when it claimed)
			later := r
			later.At = r.At + r.D2 + Step
			c2, tie2 := tlExpect(sc.Cmds, later, hcPath)
			cands, tie = append(cands, c2...), tie || tie2
			run.Count("placed_checked", 1)
		}
		if tie {
			run.Count("ties_skipped", 1)
			continue
		}
		match := false
		var why []string
		for _, e := range cands {
			m := true
			switch e.Kind {
			case "fwd":
				sideOK := strings.HasPrefix(got.Target, e.Side+"-")
				if !sideOK && e.At-r.At > Eps {
					// held across a redeploy: the statement fixes only "the targets the service has at
					// that moment"; which of its two sides applies to a request that was looked up
					// before the redeploy is not fixed (counted, see DESIGN 11)
					after := tlStateAt(sc.Cmds, e.At, true)
					redeployed := false
					for _, c := range sc.Cmds {
						if c.Kind == "deploy" && c.At+c.Slow > r.At && c.At < e.At {
							redeployed = true
						}
					}
					if redeployed && (strings.HasPrefix(got.Target, fmt.Sprintf("a%d-", after.Active)) || (after.Rollout > 0 && strings.HasPrefix(got.Target, fmt.Sprintf("r%d-", after.Rollout)))) {
						sideOK = true
						run.Count("side_unfixed_after_redeploy_while_held", 1)
					}
				}
				if got.Status != 200 || !sideOK || !near(got.Done, e.At) {
					m = false
				}
			case "503":
				if got.Status != 503 || !near(got.Done, e.At) || got.Target != "" {
					m = false
				}
			case "504":
				if got.Status != 504 || !near(got.Done, e.At) || got.Target != "" {
					m = false
				}
			case "proxy200":
				if got.Status != 200 || got.Target != "" || !near(got.Done, e.At) || len(got.Body) != 0 {
					m = false
				}
			}
			why = append(why, fmt.Sprintf("%s@%v side=%s", e.Kind, e.At, e.Side))
			if m {
				match = true
				kinds[e.Kind] = true
				if e.At-r.At > Eps {
					held++
				}
				if e.Kind == "fwd" {
					q, ok := treqs[r.ID]
					if !ok {
						fail("no-target-record", "request %s answered 200 by %s but no target logged it", r.ID, got.Target)
						return
					}
					wantURI := r.Path + "?q=" + r.ID + "&x=a;b"
					if r.Path == "/up" {
						wantURI = "/up"
					}
					if !sc.Strip {
						wantURI = sc.Prefix + wantURI
					}
					if q.Method != r.Method || q.URI != wantURI || !bytes.Equal(q.Body, tlBody(r.ID, r.Body)) ||
						strings.Join(q.Header.Values("X-Multi"), ",") != "one,two" || q.Host != "c07.example" {
						fail("released-not-intact", "request %s reached %s altered: method=%s uri=%s body=%d bytes (sent %s %s %d bytes) X-Multi=%v host=%s", r.ID, q.Target, q.Method, q.URI, len(q.Body), r.Method, wantURI, r.Body, q.Header.Values("X-Multi"), q.Host)
						return
					}
				} else if _, fwd := treqs[r.ID]; fwd {
					fail("forwarded-but-failed", "request %s was answered %d by the proxy but also reached a target", r.ID, got.Status)
					return
				}
				break
			}
		}
		if !match {
			st := tlStateAt(sc.Cmds, r.At, false)
			sig := fmt.Sprintf("outcome:%s:want-%s:got-%d", st.State, cands[0].Kind, got.Status)
			if got.Status == 200 && cands[0].Kind == "fwd" {
				sig += ":side-or-time"
			}
			fail(sig, "request %s (%s %s, arrived %v, service %s max-pause %v): got status=%d target=%q at %v err=%q; allowed: %v", r.ID, r.Method, r.Path, r.At, st.State, st.Max, got.Status, got.Target, got.Done, got.Err, why)
			return
		}
	}
	// nothing reaches a target between the return of a stop (pause) and the next resume, whenever
	// the request came in (health-check requests are answered by the proxy and never get there)
	{
		type span struct {
			kind     string
			from, to time.Duration
		}
		var spans []span
		cmds := append([]*CmdRec{}, w.Cmds...)
		sort.Slice(cmds, func(i, j int) bool { return cmds[i].Issue < cmds[j].Issue })
		for i, c := range cmds {
			if (c.Name != "stop" && c.Name != "pause") || c.Err != "" {
				continue
			}
			sp := span{kind: c.Name, from: c.Ret, to: time.Duration(1<<62 - 1)}
			for _, d := range cmds[i+1:] {
				if d.Name == "resume" {
					sp.to = d.Issue
					break
				}
			}
			spans = append(spans, sp)
		}
		for _, ft := range w.Targets {
			for _, q := range ft.ReqLog() {
				for _, sp := range spans {
					if q.Recv > sp.from+Step && q.Recv < sp.to {
						fail("forwarded-while-"+map[string]string{"stop": "stopped", "pause": "paused"}[sp.kind], "request %s reached target %s at %v: %s had returned at %v and the next resume was issued at %v", q.ID, ft.Name, q.Recv, sp.kind, sp.from, sp.to)
						return
					}
				}
			}
		}
	}
	run.Count("requests_checked", len(sc.Reqs))
	run.Count("held_requests", held)
	for _, d := range sc.Cmds {
		for _, c := range sc.Cmds {
			if d.Slow > 0 && c.At > d.At && c.At < d.At+d.Slow {
				run.Count("commands_acknowledged_during_a_deploy:"+c.Kind, 1)
			}
		}
	}
	if held > 0 || sc.Placed {
		var ks []string
		for _, k := range []string{"fwd", "503", "504", "proxy200"} {
			if kinds[k] {
				ks = append(ks, k)
			}
		}
		var cs []string
		for _, c := range sc.Cmds {
			cs = append(cs, c.Kind[:2])
		}
		run.Class(fmt.Sprintf("nt%d|%s|%s|placed=%v", sc.NT, strings.Join(cs, ""), strings.Join(ks, ","), sc.Placed))
	}
	run.Sample(map[string]any{"scenario": sc, "held": held})
}
