package verifharness

// C20 CLI options, validation and exit codes behave as documented (the built binary).

import (
	"bytes"
	"encoding/json"
	"fmt"
	"io"
	"math/rand/v2"
	"net"
	"net/http"
	"os"
	"os/exec"
	"path/filepath"
	"regexp"
	"sort"
	"strconv"
	"strings"
	"sync/atomic"
	"syscall"
	"testing"
	"time"
)

type c20Scenario struct {
	Idx  int    `json:"idx"`
	Part string `json:"part"` // run-option | run-option-spelling | deploy-validation | exit-code | list
	Opt  string `json:"option,omitempty"`
	Flag string `json:"flag,omitempty"`     // absent | valid | (bool) false
	Pref string `json:"prefixed,omitempty"` // absent | valid | malformed
	Bare string `json:"bare,omitempty"`
	// how the value of the prefixed / bare variable is written ("" = the plain form: decimal port, true/1, 80a/maybe)
	PrefSpell string   `json:"prefixed_spelling,omitempty"`
	BareSpell string   `json:"bare_spelling,omitempty"`
	Args      []string `json:"args,omitempty"`
	Case      string   `json:"case,omitempty"`
}

// options of `deploy` that take no part in its validation
var c20Bystanders = [][]string{nil, {"--forward-headers"}, {"--forward-headers=false"}, {"--strip-path-prefix=false"}, {"--tls-redirect=false"}, {"--health-check-path", "/health"},
	{"--target-timeout", "10s"}, {"--deploy-timeout", "5s", "--drain-timeout", "5s"}, {"--buffer-memory", "4096"}, {"--log-request-header", "X-A", "--log-response-header", "X-B"}, {"--tls-staging"}}

// A spelling is one way of writing the value of an environment variable of a run option.
// Kind says what the statement makes of it: "valid" (an integer in decimal notation / a boolean
// that is true), "valid-false" (a boolean that is false) or "malformed" (neither: the option falls
// back to its default).
type c20Spell struct{ Name, Kind string }

// integer options: decimal notation is an optional sign and decimal digits, leading zeros included;
// anything else (other bases, digit separators, fractions, exponents, words, values no int holds) is malformed
var c20IntSpells = []c20Spell{
	{"leading-zero", "valid"}, {"leading-zeros", "valid"}, {"plus-sign", "valid"}, {"plus-leading-zero", "valid"},
	{"hex", "malformed"}, {"hex-upper", "malformed"}, {"octal-o", "malformed"}, {"binary", "malformed"}, {"underscore", "malformed"},
	{"exponent", "malformed"}, {"decimal-point", "malformed"}, {"out-of-range", "malformed"}, {"word", "malformed"}, {"double-sign", "malformed"},
}

// the boolean option
var c20BoolSpells = []c20Spell{
	{"TRUE", "valid"}, {"True", "valid"}, {"t", "valid"}, {"T", "valid"}, {"1", "valid"}, {"true", "valid"},
	{"false", "valid-false"}, {"FALSE", "valid-false"}, {"False", "valid-false"}, {"f", "valid-false"}, {"F", "valid-false"}, {"0", "valid-false"},
	{"2", "malformed"}, {"truee", "malformed"}, {"-1", "malformed"},
}

// c20SpellInt writes port p in the named spelling. The malformed ones are derived from p as well, so
// that a parser that is too lenient ends up on a port that can be bound and told from the default.
func c20SpellInt(name string, p int) string {
	d := fmt.Sprint(p)
	switch name {
	case "leading-zero":
		return "0" + d
	case "leading-zeros":
		return "000" + d
	case "plus-sign":
		return "+" + d
	case "plus-leading-zero":
		return "+0" + d
	case "hex":
		return fmt.Sprintf("0x%x", p)
	case "hex-upper":
		return fmt.Sprintf("0X%X", p)
	case "octal-o":
		return fmt.Sprintf("0o%o", p)
	case "binary":
		return fmt.Sprintf("0b%b", p)
	case "underscore":
		return d[:len(d)/2] + "_" + d[len(d)/2:]
	case "exponent":
		return d + "e0"
	case "decimal-point":
		return d + ".0"
	case "out-of-range":
		return d + "00000000000000000000"
	case "word":
		return "port"
	case "double-sign":
		return "+-" + d
	}
	return d
}

// c20Spellings is the family "run options whose environment values are written in other ways than
// the plain one": every spelling of every option in each variable on its own (both tiers), plus
// combinations of a spelled variable with the flag and the other variable (a sample; more in thorough).
func c20Spellings(nCombos int, rng *rand.Rand) []c20Scenario {
	var out, combos []c20Scenario
	for _, opt := range []string{"http-port", "https-port", "debug"} {
		spells := c20IntSpells
		flags := []string{"absent", "valid"}
		if opt == "debug" {
			spells = c20BoolSpells
			flags = append(flags, "false")
		}
		type choice struct{ kind, spell string }
		choices := []choice{{"absent", ""}, {"valid", ""}, {"malformed", ""}}
		for _, sp := range spells {
			out = append(out, c20Scenario{Part: "run-option-spelling", Opt: opt, Flag: "absent", Pref: sp.Kind, PrefSpell: sp.Name, Bare: "absent"})
			out = append(out, c20Scenario{Part: "run-option-spelling", Opt: opt, Flag: "absent", Pref: "absent", Bare: sp.Kind, BareSpell: sp.Name})
			choices = append(choices, choice{sp.Kind, sp.Name})
		}
		for _, f := range flags {
			for _, p := range choices {
				for _, b := range choices {
					if p.spell == "" && b.spell == "" {
						continue // the plain table is the run-option part
					}
					if f == "absent" && (p.kind == "absent" || b.kind == "absent") {
						continue // above
					}
					combos = append(combos, c20Scenario{Part: "run-option-spelling", Opt: opt, Flag: f, Pref: p.kind, PrefSpell: p.spell, Bare: b.kind, BareSpell: b.spell})
				}
			}
		}
	}
	rng.Shuffle(len(combos), func(i, j int) { combos[i], combos[j] = combos[j], combos[i] })
	if nCombos < len(combos) {
		combos = combos[:nCombos]
	}
	return append(out, combos...)
}

func c20All(thorough bool, rng *rand.Rand) []c20Scenario {
	var out []c20Scenario
	for _, opt := range []string{"http-port", "https-port", "debug"} {
		flags := []string{"absent", "valid"}
		if opt == "debug" {
			flags = append(flags, "false")
		}
		for _, f := range flags {
			for _, p := range []string{"absent", "valid", "malformed"} {
				for _, b := range []string{"absent", "valid", "malformed"} {
					out = append(out, c20Scenario{Part: "run-option", Opt: opt, Flag: f, Pref: p, Bare: b})
				}
			}
		}
	}
	var combos []c20Scenario
	for _, tls := range []bool{false, true} {
		for _, host := range []bool{false, true} {
			for _, pfx := range []string{"", "/", "/api"} {
				for _, mreq := range []bool{false, true} {
					for _, breq := range []bool{false, true} {
						for _, mresp := range []bool{false, true} {
							for _, bresp := range []bool{false, true} {
								args := []string{"deploy", "svc", "--target", "127.0.0.1:1"}
								if tls {
									args = append(args, "--tls")
								}
								if host {
									args = append(args, "--host", "app.example")
								}
								if pfx != "" {
									args = append(args, "--path-prefix", pfx)
								}
								if mreq {
									args = append(args, "--max-request-body", "1000")
								}
								if breq {
									args = append(args, "--buffer-requests")
								}
								if mresp {
									args = append(args, "--max-response-body", "1000")
								}
								if bresp {
									args = append(args, "--buffer-responses")
								}
								refuse := (tls && !host) || (tls && pfx == "/api") || (mreq && !breq) || (mresp && !bresp)
								// every combination is tried bare and with each of the options that take no part
								// in the validation (given explicitly, with their default value or another one)
								for bi, by := range c20Bystanders {
									a2 := append(append([]string{}, args...), by...)
									combos = append(combos, c20Scenario{Part: "deploy-validation", Args: a2, Case: fmt.Sprintf("refuse=%v|tls=%v|host=%v|pfx=%s|mreq=%v|breq=%v|mresp=%v|bresp=%v|with=%d", refuse, tls, host, pfx, mreq, breq, mresp, bresp, bi)})
								}
							}
						}
					}
				}
			}
		}
	}
	if !thorough {
		// every combination that involves TLS validation plus a sample of the rest
		var keep []c20Scenario
		for i, c := range combos {
			if strings.Contains(c.Case, "tls=true") && !strings.Contains(c.Case, "mreq=true") && !strings.Contains(c.Case, "mresp=true") && !strings.Contains(c.Case, "breq=true") && !strings.Contains(c.Case, "bresp=true") || i%37 == 0 {
				keep = append(keep, c)
			}
		}
		combos = keep
	}
	out = append(out, combos...)
	for _, c := range []string{"deploy-ok", "deploy-unhealthy", "deploy-conflict", "deploy-bad-target", "remove-ok", "remove-unknown", "pause-ok", "pause-unknown", "stop-ok", "stop-unknown",
		"resume-ok", "resume-unknown", "rollout-deploy-ok", "rollout-deploy-unknown", "rollout-deploy-unhealthy", "rollout-set-ok", "rollout-set-no-targets", "rollout-set-unknown", "rollout-stop-ok", "rollout-stop-unknown", "list-ok",
		"deploy-slow-drain-ok", "rollout-deploy-slow-drain-ok",
		"tls-host-list-with-empty-element:app.example,", "tls-host-list-with-empty-element:,app.example", "tls-host-list-with-empty-element:,",
		"down-deploy", "down-remove", "down-pause", "down-stop", "down-resume", "down-list", "down-rollout-deploy", "down-rollout-set", "down-rollout-stop"} {
		out = append(out, c20Scenario{Part: "exit-code", Case: c})
	}
	nl := 10
	if thorough {
		nl = 200
	}
	for i := 0; i < nl; i++ {
		out = append(out, c20Scenario{Part: "list", Case: fmt.Sprint(i)})
	}
	// appended after the other parts so that their indices (replays) stay what they were
	nc := 40
	if thorough {
		nc = 600
	}
	out = append(out, c20Spellings(nc, rng)...)
	for i := range out {
		out[i].Idx = i
	}
	return out
}

func TestC20(t *testing.T) {
	run := NewRun(t, "C20")
	defer run.Finish()
	bin := os.Getenv("VERIF_BIN_KAMAL_PROXY")
	if bin == "" {
		run.Inconclusive("real binary not built (VERIF_BIN_KAMAL_PROXY unset)")
		return
	}
	all := c20All(run.Thorough(), run.Rand(0))
	for i, sc := range all {
		if !run.Mine(i, sc) {
			continue
		}
		run.Eval()
		switch sc.Part {
		case "run-option", "run-option-spelling":
			c20RunOption(t, run, bin, sc)
		case "deploy-validation":
			c20Validation(t, run, bin, sc)
		case "exit-code":
			c20ExitCode(t, run, bin, sc)
		case "list":
			c20List(t, run, bin, sc, run.Rand(i))
		}
	}
	run.mu.Lock()
	run.Res.Exhaustive = run.Thorough()
	run.mu.Unlock()
}

var bindErrRE = regexp.MustCompile(`listen tcp [^ ]*:(\d+): bind`)

// c20RunOption retries a case whose outcome could not be determined (a "free" port taken by
// another process between probing and binding): ports are picked afresh each time.
func c20RunOption(t *testing.T, run *Run, bin string, sc c20Scenario) {
	for attempt := 0; attempt < 4; attempt++ {
		if c20RunOptionOnce(t, run, bin, sc, attempt == 3) {
			return
		}
	}
}

func c20RunOptionOnce(t *testing.T, run *Run, bin string, sc c20Scenario, last bool) (decided bool) {
	fail := func(sig, format string, a ...any) { run.Violate(sig, fmt.Sprintf(format, a...), sc, nil) }
	dir, _ := os.MkdirTemp("", "vh-c20-")
	defer os.RemoveAll(dir)
	os.MkdirAll(filepath.Join(dir, "run"), 0o755)
	env := []string{"HOME=" + dir, "XDG_RUNTIME_DIR=" + filepath.Join(dir, "run"), "PATH=" + os.Getenv("PATH")}
	args := []string{"run"}
	name := strings.ToUpper(strings.ReplaceAll(sc.Opt, "-", "_"))
	isBool := sc.Opt == "debug"
	pFlag, pPref, pBare := freePort(), freePort(), freePort()
	other := freePort()
	def := map[string]int{"http-port": 80, "https-port": 443}[sc.Opt]
	// the option that is not under test is always given by flag
	switch sc.Opt {
	case "http-port":
		args = append(args, "--https-port", fmt.Sprint(other))
	case "https-port":
		args = append(args, "--http-port", fmt.Sprint(other))
	case "debug":
		args = append(args, "--http-port", fmt.Sprint(other), "--https-port", fmt.Sprint(freePort()))
	}
	val := func(kind, spell string, port int, truth string) (string, bool) {
		if spell != "" && kind != "absent" {
			if isBool {
				return spell, true
			}
			return c20SpellInt(spell, port), true
		}
		switch kind {
		case "valid":
			if isBool {
				return truth, true
			}
			return fmt.Sprint(port), true
		case "malformed":
			if isBool {
				return "maybe", true
			}
			return "80a", true
		}
		return "", false
	}
	// expected value per the statement: flag, else prefixed, else bare, else default; malformed -> default
	wantPort, wantDebug := def, false
	switch {
	case sc.Flag == "valid":
		wantPort, wantDebug = pFlag, true
	case sc.Flag == "false":
		wantDebug = false
	case sc.Pref == "valid":
		wantPort, wantDebug = pPref, true
	case sc.Pref == "malformed", sc.Pref == "valid-false":
	case sc.Bare == "valid":
		wantPort, wantDebug = pBare, true
	}
	switch sc.Flag {
	case "valid":
		if isBool {
			args = append(args, "--debug")
		} else {
			args = append(args, "--"+sc.Opt, fmt.Sprint(pFlag))
		}
	case "false":
		args = append(args, "--debug=false")
	}
	// for the boolean the environment carries the opposite of the flag so that precedence shows
	prefVal, bareVal := "(unset)", "(unset)"
	if v, ok := val(sc.Pref, sc.PrefSpell, pPref, "true"); ok {
		env = append(env, "KAMAL_PROXY_"+name+"="+v)
		prefVal = strconv.Quote(v)
	}
	if v, ok := val(sc.Bare, sc.BareSpell, pBare, "1"); ok {
		env = append(env, name+"="+v)
		bareVal = strconv.Quote(v)
	}
	// the spelled variable that decides the case (none for the plain table)
	spelled := ""
	switch {
	case sc.Part != "run-option-spelling":
	case sc.Flag != "absent":
		spelled = ":flag-over-spelled-env"
	case sc.Pref != "absent":
		spelled = ":prefixed:" + sc.Pref + ":" + sc.PrefSpell
		if sc.PrefSpell == "" {
			spelled = ":prefixed:" + sc.Pref + ":plain-over-spelled-bare"
		}
	default:
		spelled = ":bare:" + sc.Bare + ":" + sc.BareSpell
	}
	cmd := exec.Command(bin, args...)
	cmd.Env = env
	var out bytes.Buffer
	cmd.Stdout, cmd.Stderr = &out, &out
	cmd.SysProcAttr = &syscall.SysProcAttr{Setpgid: true}
	if err := cmd.Start(); err != nil {
		run.Inconclusive("cannot start: %v", err)
		return true
	}
	exited := make(chan struct{})
	go func() { cmd.Wait(); close(exited) }()
	// wait until it either reports its ports or exits with a bind error
	deadline := time.Now().Add(15 * time.Second)
	started := false
	for time.Now().Before(deadline) {
		if strings.Contains(out.String(), `"Server started"`) {
			started = true
			break
		}
		select {
		case <-exited:
			deadline = time.Now()
		default:
			time.Sleep(10 * time.Millisecond)
		}
	}
	if started && isBool {
		// a command that saves the state makes the proxy log "Saved state" at debug level
		// before it answers, so the record (if debug logging is on) is there when the CLI returns
		cli := exec.Command(bin, "remove", "nosuch")
		cli.Env = env
		cli.CombinedOutput()
	}
	if started {
		syscall.Kill(-cmd.Process.Pid, syscall.SIGTERM)
		select {
		case <-exited:
		case <-time.After(15 * time.Second):
			syscall.Kill(-cmd.Process.Pid, syscall.SIGKILL)
			<-exited
		}
	} else {
		select {
		case <-exited:
		default:
			syscall.Kill(-cmd.Process.Pid, syscall.SIGKILL)
			<-exited
		}
	}
	text := out.String()
	class := fmt.Sprintf("run|%s|flag=%s|pref=%s|bare=%s", sc.Opt, sc.Flag, sc.Pref, sc.Bare)
	if sc.Part == "run-option-spelling" {
		class = fmt.Sprintf("run-spelling|%s|flag=%s|pref=%s:%s|bare=%s:%s", sc.Opt, sc.Flag, sc.Pref, sc.PrefSpell, sc.Bare, sc.BareSpell)
	}
	if isBool {
		if !started {
			if last {
				run.Inconclusive("proxy did not start for the debug option: %s", trunc(text, 600))
			}
			return last
		}
		gotDebug := strings.Contains(text, `"level":"DEBUG"`) && strings.Contains(text, "Saved state")
		if gotDebug != wantDebug {
			if spelled != "" {
				fail("run-option:debug"+spelled, "debug: flag=%s KAMAL_PROXY_DEBUG=%s (%s) DEBUG=%s (%s) -> debug records present=%v, expected %v", sc.Flag, prefVal, sc.Pref, bareVal, sc.Bare, gotDebug, wantDebug)
				return true
			}
			fail("run-option:debug", "debug: flag=%s KAMAL_PROXY_DEBUG=%s DEBUG=%s -> debug records present=%v, expected %v", sc.Flag, sc.Pref, sc.Bare, gotDebug, wantDebug)
			return true
		}
		run.Class(class)
		return true
	}
	got := -1
	if started {
		for _, line := range strings.Split(text, "\n") {
			if strings.Contains(line, `"Server started"`) {
				var m map[string]any
				if json.Unmarshal([]byte(line), &m) == nil {
					key := map[string]string{"http-port": "http", "https-port": "https"}[sc.Opt]
					if f, ok := m[key].(float64); ok {
						got = int(f)
					}
				}
			}
		}
	} else {
		// the bind may fail for the privileged defaults: the error names the port it tried; the
		// other listener's port is known, so the one under test is the remaining one
		for _, m := range bindErrRE.FindAllStringSubmatch(text, -1) {
			if p, _ := strconv.Atoi(m[1]); p != other {
				got = p
			}
		}
	}
	if got < 0 {
		if last {
			run.Inconclusive("could not determine the effective %s: %s", sc.Opt, trunc(text, 900))
		}
		return last
	}
	if got != wantPort {
		if !started && !last {
			return false // decided from a bind error only: confirm with fresh ports first
		}
		if spelled != "" {
			fail("run-option:"+sc.Opt+spelled, "%s: flag=%s KAMAL_PROXY_%s=%s (%s) %s=%s (%s) -> effective port %d, expected %d", sc.Opt, sc.Flag, name, prefVal, sc.Pref, name, bareVal, sc.Bare, got, wantPort)
			return true
		}
		fail("run-option:"+sc.Opt, "%s: flag=%s KAMAL_PROXY_%s=%s %s=%s -> effective port %d, expected %d", sc.Opt, sc.Flag, name, sc.Pref, name, sc.Bare, got, wantPort)
		return true
	}
	run.Class(class)
	run.Sample(map[string]any{"part": sc.Part, "option": sc.Opt, "flag": sc.Flag, "prefixed": sc.Pref, "bare": sc.Bare, "prefixed_value": prefVal, "bare_value": bareVal, "effective": got})
	return true
}

func c20Validation(t *testing.T, run *Run, bin string, sc c20Scenario) {
	fail := func(sig, format string, a ...any) { run.Violate(sig, fmt.Sprintf(format, a...), sc, nil) }
	dir, _ := os.MkdirTemp("", "vh-c20-")
	defer os.RemoveAll(dir)
	os.MkdirAll(filepath.Join(dir, "run"), 0o755)
	// a fake proxy socket that only counts connections
	ln, err := net.Listen("unix", filepath.Join(dir, "run", "kamal-proxy.sock"))
	if err != nil {
		run.Inconclusive("unix listen: %v", err)
		return
	}
	defer ln.Close()
	var conns atomic.Int64
	go func() {
		for {
			c, err := ln.Accept()
			if err != nil {
				return
			}
			conns.Add(1)
			c.Close()
		}
	}()
	cmd := exec.Command(bin, sc.Args...)
	cmd.Env = []string{"HOME=" + dir, "XDG_RUNTIME_DIR=" + filepath.Join(dir, "run"), "PATH=" + os.Getenv("PATH")}
	out, err := cmd.CombinedOutput()
	code := 0
	if err != nil {
		code = 1
		if ee, ok := err.(*exec.ExitError); ok {
			code = ee.ExitCode()
		}
	}
	time.Sleep(20 * time.Millisecond)
	contacted := conns.Load() > 0
	refuse := strings.HasPrefix(sc.Case, "refuse=true")
	if refuse && (contacted || code == 0) {
		fail("deploy-not-refused:"+strings.SplitN(sc.Case, "|", 2)[1], "`%s` must be refused before contacting the proxy: exit=%d contacted=%v output=%q", strings.Join(sc.Args, " "), code, contacted, trunc(string(out), 120))
		return
	}
	if !refuse && !contacted {
		fail("deploy-refused-wrongly", "`%s` is valid but the proxy was not contacted: exit=%d output=%q", strings.Join(sc.Args, " "), code, trunc(string(out), 120))
		return
	}
	run.Class("validation|" + sc.Case)
}

func c20ExitCode(t *testing.T, run *Run, bin string, sc c20Scenario) {
	fail := func(sig, format string, a ...any) { run.Violate(sig, fmt.Sprintf(format, a...), sc, nil) }
	u := NewUniverse(t, bin)
	defer u.Cleanup()
	good, ga := RealTarget("good")
	defer good.Close()
	good2, ga2 := RealTarget("good2")
	defer good2.Close()
	down := strings.HasPrefix(sc.Case, "down-")
	if !down {
		if err := u.Start(nil); err != nil {
			run.Inconclusive("proxy: %v", err)
			return
		}
		// a base service for the commands that need one
		if out, code := u.CLI("deploy", "base", "--target", ga, "--host", "base.example"); code != 0 {
			run.Inconclusive("base deploy failed: %s", out)
			return
		}
	}
	if hosts, ok := strings.CutPrefix(sc.Case, "tls-host-list-with-empty-element:"); ok {
		// "TLS without a host" for one entry of a host list: an empty element binds the service to no
		// host. Either the command refuses, or what it deploys has no such binding: a TLS service
		// must not end up on the no-host (wildcard) binding.
		args := []string{"deploy", "web", "--target", ga2, "--tls", "--host", hosts}
		out, code := u.CLI(args...)
		if code == 0 {
			rows, lout, _ := u.ListRows()
			for _, r := range rows {
				if len(r) >= 2 && r[0] == "web" && (r[1] == "*" || strings.HasPrefix(r[1], ",") || strings.HasSuffix(r[1], ",") || strings.Contains(r[1], ",,")) {
					fail("tls-without-host-accepted:"+hosts, "`%s` exited 0 and the service is listed with host %q (TLS on a binding without a host): %s / %s", strings.Join(args, " "), r[1], trunc(out, 80), trunc(lout, 200))
					return
				}
			}
		}
		run.Class("exit|tls-host-list|refused=" + fmt.Sprint(code != 0))
		return
	}
	dead := "127.0.0.1:" + fmt.Sprint(freePort())
	var args []string
	wantOK := strings.HasSuffix(sc.Case, "-ok")
	switch strings.TrimPrefix(sc.Case, "down-") {
	case "deploy-ok", "deploy":
		args = []string{"deploy", "web", "--target", ga2, "--host", "web.example"}
	case "deploy-slow-drain-ok", "rollout-deploy-slow-drain-ok":
		// the proxy reports success only after the replaced target has drained, which here takes
		// longer than the deploy timeout: a request of 3s is in flight on it (the drain timeout is 30s)
		rollout := strings.HasPrefix(sc.Case, "rollout-")
		if rollout {
			if out, code := u.CLI("rollout", "deploy", "base", "--target", ga); code != 0 {
				run.Inconclusive("rollout deploy failed: %s", out)
				return
			}
			u.CLI("rollout", "set", "base", "--percent", "100")
		}
		slowDone := make(chan string, 1)
		go func() {
			req, _ := http.NewRequest("GET", fmt.Sprintf("http://127.0.0.1:%d/slow", u.HTTP), nil)
			req.Host = "base.example"
			req.Header.Set("X-Sleep", "3s")
			req.Header.Set("Cookie", "kamal-rollout=u1")
			resp, err := (&http.Client{Timeout: 60 * time.Second}).Do(req)
			if err != nil {
				slowDone <- "error: " + err.Error()
				return
			}
			b, _ := io.ReadAll(resp.Body)
			resp.Body.Close()
			slowDone <- fmt.Sprintf("%d %s", resp.StatusCode, b)
		}()
		time.Sleep(500 * time.Millisecond) // the request is at its target by now
		defer func() { <-slowDone }()
		if rollout {
			args = []string{"rollout", "deploy", "base", "--target", ga2, "--deploy-timeout", "1s", "--drain-timeout", "30s"}
		} else {
			args = []string{"deploy", "base", "--target", ga2, "--host", "base.example", "--deploy-timeout", "1s", "--drain-timeout", "30s"}
		}
	case "deploy-unhealthy":
		args = []string{"deploy", "web", "--target", dead, "--host", "web.example", "--deploy-timeout", "1s"}
	case "deploy-conflict":
		args = []string{"deploy", "web", "--target", ga2, "--host", "base.example"}
	case "deploy-bad-target":
		args = []string{"deploy", "web", "--target", "not a host!", "--host", "web.example"}
	case "remove-ok", "remove":
		args = []string{"remove", "base"}
	case "remove-unknown":
		args = []string{"remove", "nosuch"}
	case "pause-ok", "pause":
		args = []string{"pause", "base"}
	case "pause-unknown":
		args = []string{"pause", "nosuch"}
	case "stop-ok", "stop":
		args = []string{"stop", "base", "--message", "bye"}
	case "stop-unknown":
		args = []string{"stop", "nosuch"}
	case "resume-ok", "resume":
		args = []string{"resume", "base"}
	case "resume-unknown":
		args = []string{"resume", "nosuch"}
	case "rollout-deploy-ok", "rollout-deploy":
		args = []string{"rollout", "deploy", "base", "--target", ga2}
	case "rollout-deploy-unknown":
		args = []string{"rollout", "deploy", "nosuch", "--target", ga2}
	case "rollout-deploy-unhealthy":
		args = []string{"rollout", "deploy", "base", "--target", dead, "--deploy-timeout", "1s"}
	case "rollout-set-ok", "rollout-set":
		if !down {
			u.CLI("rollout", "deploy", "base", "--target", ga2)
		}
		args = []string{"rollout", "set", "base", "--percent", "20"}
	case "rollout-set-no-targets":
		args = []string{"rollout", "set", "base", "--percent", "20"}
	case "rollout-set-unknown":
		args = []string{"rollout", "set", "nosuch", "--percent", "20"}
	case "rollout-stop-ok", "rollout-stop":
		args = []string{"rollout", "stop", "base"}
	case "rollout-stop-unknown":
		args = []string{"rollout", "stop", "nosuch"}
	case "list-ok", "list":
		args = []string{"list"}
	}
	out, code := u.CLI(args...)
	if down {
		wantOK = false
	}
	if wantOK != (code == 0) {
		fail("exit-code:"+sc.Case, "`%s` (%s): exit status %d, output %q", strings.Join(args, " "), sc.Case, code, trunc(out, 160))
		return
	}
	run.Class("exit|" + sc.Case)
}

func c20List(t *testing.T, run *Run, bin string, sc c20Scenario, rng *rand.Rand) {
	fail := func(sig, format string, a ...any) { run.Violate(sig, fmt.Sprintf(format, a...), sc, nil) }
	u := NewUniverse(t, bin)
	defer u.Cleanup()
	if err := u.Start(nil); err != nil {
		run.Inconclusive("proxy: %v", err)
		return
	}
	var addrs []string
	for i := 0; i < 4; i++ {
		s, a := RealTarget(fmt.Sprint("t", i))
		defer s.Close()
		addrs = append(addrs, a)
	}
	fix := Fixtures()
	type svc struct {
		hosts, paths, targets []string
		state                 string
		tls                   bool
		sub                   bool // a sub-path service: its TLS flag follows the root-path service of its host
	}
	model := map[string]*svc{}
	names := []string{"alpha", "beta", "gamma"}
	if ci, _ := strconv.Atoi(sc.Case); ci%3 == 2 {
		// names outside ASCII (and wider than anything else in their column)
		names = []string{"alpha", "bêta-naïve-sérvice-numéro-deux", "gämmä"}
	}
	n := 3 + rng.IntN(6)
	var hist []string
	for i := 0; i < n; i++ {
		name := pick(rng, names)
		k := rng.IntN(7)
		if model[name] == nil {
			k = 0
		}
		forceTLS := false
		if (sc.Case == "0" || sc.Case == "1") && i < 3 {
			// directed start: a TLS root-path service, then a service below a path prefix on its host,
			// then the TLS service is stopped (paused): the rows still say TLS yes
			name, k, forceTLS = "alpha", []int{0, 6, map[string]int{"0": 3, "1": 2}[sc.Case]}[i], true
		}
		switch k {
		case 6:
			// a service below a path prefix on the host of `name`
			sub := name + "-api"
			s := &svc{state: "running", sub: true, hosts: []string{name + ".example"}, paths: []string{"/api"}, targets: []string{addrs[rng.IntN(len(addrs))]}}
			if old := model[sub]; old != nil {
				s.state = old.state
			}
			args := []string{"deploy", sub, "--target", s.targets[0], "--host", s.hosts[0], "--path-prefix", "/api"}
			if out, code := u.CLI(args...); code != 0 {
				fail("list:deploy-failed", "`%s` failed: %s", strings.Join(args, " "), trunc(out, 200))
				return
			}
			model[sub] = s
			hist = append(hist, "deploy "+sub)
		case 0, 1:
			s := &svc{state: "running"}
			if old := model[name]; old != nil {
				s.state = old.state
			}
			args := []string{"deploy", name}
			for _, j := range rng.Perm(len(addrs))[:1+rng.IntN(2)] {
				s.targets = append(s.targets, addrs[j])
				args = append(args, "--target", addrs[j])
			}
			own := name + ".example"
			s.hosts = []string{own}
			if rng.IntN(3) == 0 {
				s.hosts = append(s.hosts, "www."+own)
			}
			for _, h := range s.hosts {
				args = append(args, "--host", h)
			}
			s.paths = []string{"/"}
			if rng.IntN(3) == 0 {
				s.paths = []string{"/", "/" + name}
				args = append(args, "--path-prefix", "/", "--path-prefix", name+"/")
			}
			if rng.IntN(3) == 0 || forceTLS {
				s.tls = true
				args = append(args, "--tls", "--tls-certificate-path", fix+"/cert.pem", "--tls-private-key-path", fix+"/key.pem")
			} else if i%3 == 1 {
				// certificate files named, TLS not asked for: the service is deployed without TLS
				args = append(args, "--tls-certificate-path", fix+"/cert.pem", "--tls-private-key-path", fix+"/key.pem")
			}
			out, code := u.CLI(args...)
			if code != 0 {
				fail("list:deploy-failed", "`%s` failed: %s", strings.Join(args, " "), trunc(out, 200))
				return
			}
			model[name] = s
			hist = append(hist, "deploy "+name)
		case 2:
			u.CLI("pause", name)
			model[name].state = "paused"
			hist = append(hist, "pause "+name)
		case 3:
			u.CLI("stop", name)
			model[name].state = "stopped"
			hist = append(hist, "stop "+name)
		case 4:
			u.CLI("resume", name)
			model[name].state = "running"
			hist = append(hist, "resume "+name)
		case 5:
			u.CLI("remove", name)
			delete(model, name)
			hist = append(hist, "remove "+name)
		}
		rows, raw, code := u.ListRows()
		if code != 0 {
			fail("list:failed", "list failed: %s", raw)
			return
		}
		var want []string
		for nm, s := range model {
			tls := "no"
			effective := s.tls
			if s.sub {
				effective = false
				for _, r := range model {
					if !r.sub && contains(r.hosts, s.hosts[0]) {
						effective = r.tls
					}
				}
			}
			if effective {
				tls = "yes"
			}
			want = append(want, strings.Join([]string{nm, strings.Join(s.hosts, ","), strings.Join(s.paths, ","), strings.Join(s.targets, ","), s.state, tls}, " "))
		}
		sort.Strings(want)
		var got []string
		for _, r := range rows {
			got = append(got, strings.Join(r, " "))
		}
		if strings.Join(got, "\n") != strings.Join(want, "\n") {
			fail("list:rows-differ", "after %v `list` printed\n%s\nexpected\n%s", hist, strings.Join(got, "\n"), strings.Join(want, "\n"))
			return
		}
	}
	run.Class(fmt.Sprintf("list|services=%d|n=%d", len(model), n))
	run.Sample(map[string]any{"part": "list", "history": hist})
}
