package verifharness

// C18 Concurrent commands, probes and traffic never corrupt the proxy (LIVE, -race).
// One real Server per process on 127.0.0.1, real HTTP targets, real clients, operators issuing
// every command concurrently, random jitter at the hook points. The Go race detector watches
// memory accesses (reports are collected by the driver from GORACE log files); a panic kills the
// process (the journal attributes it); "never deadlocks" is restated as bounded progress: after
// the stress a fixed epilogue must complete, otherwise the goroutine dump is classified.

import (
	"bufio"
	"context"
	"fmt"
	"io"
	"math/rand/v2"
	"net"
	"net/http"
	"net/http/httptest"
	"os"
	"path/filepath"
	"runtime"
	"sort"
	"strings"
	"sync"
	"sync/atomic"
	"testing"
	"testing/synctest"
	"time"

	"github.com/basecamp/kamal-proxy/internal/server"
)

type c18Scenario struct {
	Idx       int           `json:"idx"`
	Clients   int           `json:"clients"`
	Operators int           `json:"operators"`
	Targets   int           `json:"targets"`
	Duration  time.Duration `json:"duration"`
	ProbeIv   time.Duration `json:"probe_interval"`
}

// c18Sim runs virtual-time scenarios of other monitors that overlap commands, requests and probe
// completions in particular ways (racing installs, interleaved snapshots, overlapping commands,
// flap storms, the placement grid) inside this -race binary. Their own verdicts are discarded
// here; what counts is whether the race detector reports something (or the process dies).
func c18Sim(t *testing.T, run *Run, k int) {
	scratch := NewScratchRun(t, run.Seed, run.Tier)
	switch k % 6 {
	case 0:
		sc := c05Gen(scratch.Rand(4*k+3), 4*k+3)
		synctest.Test(t, func(t *testing.T) { c05Run(t, scratch, sc, scratch.Rand(k)) })
	case 1:
		sc := c12Gen(scratch.Rand(4*k+3), 4*k+3, 1<<30, 0, 0)
		synctest.Test(t, func(t *testing.T) { c12Sim(t, scratch, sc) })
	case 2:
		sc := c17Gen(scratch.Rand(k), k, true)
		synctest.Test(t, func(t *testing.T) { c17Run(t, scratch, sc) })
	case 3:
		sc := c06Gen(scratch.Rand(k), len(c06Classes)*k+len(c06Classes)-1)
		synctest.Test(t, func(t *testing.T) { c06Run(t, scratch, sc, scratch.Rand(k+1)) })
	case 4:
		sc := c09Gen(scratch.Rand(10*k+9), 10*k+9)
		sc.Horizon = 30
		var bs []c09Burst
		for _, b := range sc.Bursts {
			if b.K < sc.Horizon {
				bs = append(bs, b)
			}
		}
		sc.Bursts = bs
		synctest.Test(t, func(t *testing.T) { c09Run(t, scratch, sc) })
	case 5:
		sc := c02Gen(scratch.Rand(k), 4+k, false)
		synctest.Test(t, func(t *testing.T) { c02Run(t, scratch, sc) })
	}
	run.Count("sim_scenarios_under_race", 1)
	run.Class(fmt.Sprintf("sim-under-race|kind=%d", k%6))
}

func TestC18(t *testing.T) {
	run := NewRun(t, "C18")
	defer run.Finish()
	n := run.N(16, 200)
	nsim := run.N(12, 240)
	for k := 0; k < nsim; k++ {
		if !run.Mine(n+k, map[string]any{"part": "sim-under-race", "k": k}) {
			continue
		}
		run.Eval()
		c18Sim(t, run, k)
	}
	ngate := run.N(4, 40)
	for g := 0; g < ngate; g++ {
		desc := map[string]any{"part": "gate-storm", "g": g}
		if !run.Mine(n+nsim+g, desc) {
			continue
		}
		c18Gate(t, run, g, desc)
	}
	ndisp := run.N(3, 40)
	for g := 0; g < ndisp; g++ {
		desc := map[string]any{"part": "dispose-vs-probe-results", "g": g}
		if !run.Mine(n+nsim+ngate+g, desc) {
			continue
		}
		liveDispose(t, run, g, desc)
	}
	for i := 0; i < n; i++ {
		rng := run.Rand(i)
		sc := c18Scenario{Idx: i, Clients: 16 + rng.IntN(40), Operators: 3 + rng.IntN(4), Targets: 6 + rng.IntN(7), Duration: 2500 * time.Millisecond, ProbeIv: time.Duration(5+rng.IntN(16)) * time.Millisecond}
		if !run.Mine(i, sc) {
			continue
		}
		c18Run(t, run, sc, rng)
	}
}

func c18Target(name string, flap *atomic.Bool) *httptest.Server {
	return httptest.NewServer(http.HandlerFunc(func(w http.ResponseWriter, r *http.Request) {
		if r.URL.Path == "/up" {
			if flap != nil && flap.Load() {
				w.WriteHeader(500)
				return
			}
			w.WriteHeader(200)
			return
		}
		if strings.EqualFold(r.Header.Get("Upgrade"), "websocket") {
			hj, ok := w.(http.Hijacker)
			if !ok {
				w.WriteHeader(500)
				return
			}
			c, rw, err := hj.Hijack()
			if err != nil {
				return
			}
			defer c.Close()
			rw.WriteString("HTTP/1.1 101 Switching Protocols\r\nConnection: Upgrade\r\nUpgrade: websocket\r\n\r\n")
			rw.Flush()
			buf := make([]byte, 128)
			c.SetDeadline(time.Now().Add(5 * time.Second))
			for {
				n, err := rw.Read(buf)
				if n > 0 {
					c.Write(buf[:n])
				}
				if err != nil {
					return
				}
			}
		}
		if d := r.Header.Get("X-Sleep"); d != "" {
			if dd, err := time.ParseDuration(d); err == nil {
				time.Sleep(dd)
			}
		}
		io.Copy(io.Discard, r.Body)
		w.Header().Set("X-Target", name)
		w.Write([]byte(name))
	}))
}

var c18Once sync.Once

func c18Run(t *testing.T, run *Run, sc c18Scenario, rng *rand.Rand) {
	run.Eval()
	RestoreHTTPDefaults() // a virtual-time world may have run in this process before
	dir, err := os.MkdirTemp("", "vh-c18-")
	if err != nil {
		run.Inconclusive("tempdir: %v", err)
		return
	}
	defer os.RemoveAll(dir)
	os.Setenv("XDG_RUNTIME_DIR", dir)
	fix := Fixtures()
	// hook sink: jitter at hook points outside locks, scheduler yields at the snapshot points
	var hookN atomic.Int64
	var jitterOn atomic.Bool
	jitterOn.Store(true)
	hook := func(point string, args ...any) {
		k := hookN.Add(1)
		if !jitterOn.Load() {
			return
		}
		if strings.HasPrefix(point, "snapshot.") {
			for i := int(k % 3); i > 0; i-- {
				runtime.Gosched()
			}
			return
		}
		switch k % 7 {
		case 0:
			time.Sleep(time.Duration(k%5) * 400 * time.Microsecond)
		case 1, 2:
			runtime.Gosched()
		}
	}
	server.VerifHook.Store(&hook)
	defer server.VerifHook.Store(nil)

	var flaps []*atomic.Bool
	var targets []string
	var servers []*httptest.Server
	for i := 0; i < sc.Targets; i++ {
		f := &atomic.Bool{}
		s := c18Target(fmt.Sprintf("t%d", i), f)
		servers = append(servers, s)
		flaps = append(flaps, f)
		targets = append(targets, strings.TrimPrefix(s.URL, "http://"))
	}
	defer func() {
		for _, s := range servers {
			s.CloseClientConnections()
			s.Close()
		}
	}()
	cfg := &server.Config{Bind: "127.0.0.1", HttpPort: 0, HttpsPort: 0, AlternateConfigDir: dir}
	router := server.NewRouter(cfg.StatePath())
	srv := server.NewServer(cfg, router)
	if err := srv.Start(); err != nil {
		run.Inconclusive("server start: %v", err)
		return
	}
	defer srv.Stop()
	addr := fmt.Sprintf("127.0.0.1:%d", srv.HttpPort())
	to := func() server.TargetOptions {
		o := server.TargetOptions{HealthCheckConfig: server.HealthCheckConfig{Path: "/up", Interval: sc.ProbeIv, Timeout: time.Second}, ResponseTimeout: 2 * time.Second, MaxMemoryBufferSize: 1 << 20}
		return o
	}
	names := []string{"alpha", "beta", "gamma"}
	// ---- bookkeeping for evidence ----
	var cmdCount sync.Map // kind -> *atomic.Int64
	inc := func(m *sync.Map, k string) {
		v, _ := m.LoadOrStore(k, &atomic.Int64{})
		v.(*atomic.Int64).Add(1)
	}
	var inflightMu sync.Mutex
	inflight := map[string]int{}
	overlaps := map[string]bool{}
	begin := func(kind string) {
		inflightMu.Lock()
		for other, n := range inflight {
			if n > 0 {
				p := []string{kind, other}
				sort.Strings(p)
				overlaps[p[0]+"+"+p[1]] = true
			}
		}
		inflight[kind]++
		inflightMu.Unlock()
	}
	end := func(kind string) {
		inflightMu.Lock()
		inflight[kind]--
		inflightMu.Unlock()
	}
	var statuses sync.Map
	var reqTotal, upgTotal atomic.Int64
	ctx, cancel := context.WithTimeout(context.Background(), sc.Duration)
	defer cancel()
	var wg sync.WaitGroup
	// ---- operators ----
	for op := 0; op < sc.Operators; op++ {
		r := rand.New(rand.NewPCG(run.Seed+uint64(sc.Idx), uint64(op)+17))
		wg.Add(1)
		go func() {
			defer wg.Done()
			for ctx.Err() == nil {
				name := names[r.IntN(len(names))]
				kinds := []string{"deploy", "deploy", "deploy-sub", "rollout-deploy", "rollout-set", "rollout-stop", "pause", "stop", "resume", "resume", "remove", "list", "flap"}
				kind := kinds[r.IntN(len(kinds))]
				begin(kind)
				switch kind {
				case "deploy":
					so := server.ServiceOptions{TLSRedirect: r.IntN(2) == 0, Hosts: []string{name + ".example"}, StripPrefix: r.IntN(2) == 0}
					if r.IntN(3) == 0 {
						so.Hosts = append(so.Hosts, "www."+name+".example")
					}
					if r.IntN(3) == 0 {
						so.TLSEnabled, so.TLSCertificatePath, so.TLSPrivateKeyPath = true, fix+"/cert.pem", fix+"/key.pem"
						so.TLSRedirect = false
					}
					if r.IntN(4) == 0 {
						so.ErrorPagePath = fix + "/pages"
					}
					o := to()
					o.BufferRequests, o.BufferResponses = r.IntN(3) == 0, r.IntN(3) == 0
					o.LogRequestHeaders = []string{"X-Kind"}
					ts := []string{targets[r.IntN(len(targets))]}
					if r.IntN(2) == 0 {
						ts = append(ts, targets[r.IntN(len(targets))])
					}
					router.DeployService(name, ts, so, o, 300*time.Millisecond, 50*time.Millisecond)
				case "deploy-sub":
					// a sub-path service on the same host: inherits TLS settings from the root service
					so := server.ServiceOptions{TLSRedirect: true, Hosts: []string{name + ".example"}, PathPrefixes: []string{"/api"}, StripPrefix: true}
					router.DeployService(name+"-api", []string{targets[r.IntN(len(targets))]}, so, to(), 300*time.Millisecond, 50*time.Millisecond)
				case "rollout-deploy":
					router.SetRolloutTargets(name, []string{targets[r.IntN(len(targets))]}, 300*time.Millisecond, 50*time.Millisecond)
				case "rollout-set":
					router.SetRolloutSplit(name, r.IntN(101), []string{"u1"})
				case "rollout-stop":
					router.StopRollout(name)
				case "pause":
					router.PauseService(name, 50*time.Millisecond, 100*time.Millisecond)
				case "stop":
					router.StopService(name, 50*time.Millisecond, "down")
				case "resume":
					router.ResumeService(name)
				case "remove":
					if r.IntN(3) == 0 {
						router.RemoveService(name)
					} else {
						router.RemoveService(name + "-api")
					}
				case "list":
					router.ListActiveServices()
				case "flap":
					flaps[r.IntN(len(flaps))].Store(r.IntN(3) == 0)
				}
				end(kind)
				inc(&cmdCount, kind)
				time.Sleep(time.Duration(r.IntN(8)) * time.Millisecond)
			}
		}()
	}
	// ---- clients ----
	tr := &http.Transport{MaxIdleConnsPerHost: 64}
	defer tr.CloseIdleConnections()
	hc := &http.Client{Transport: tr, Timeout: 3 * time.Second, CheckRedirect: func(*http.Request, []*http.Request) error { return http.ErrUseLastResponse }}
	for c := 0; c < sc.Clients; c++ {
		r := rand.New(rand.NewPCG(run.Seed+uint64(sc.Idx), uint64(c)+1000))
		kind := []string{"plain", "plain", "cookie", "upgrade", "slow", "post"}[c%6]
		wg.Add(1)
		go func() {
			defer wg.Done()
			for ctx.Err() == nil {
				name := names[r.IntN(len(names))]
				path := []string{"/", "/api/x", "/up", "/other"}[r.IntN(4)]
				if kind == "upgrade" {
					conn, err := net.DialTimeout("tcp", addr, time.Second)
					if err != nil {
						continue
					}
					conn.SetDeadline(time.Now().Add(500 * time.Millisecond))
					fmt.Fprintf(conn, "GET /ws HTTP/1.1\r\nHost: %s.example\r\nConnection: Upgrade\r\nUpgrade: websocket\r\nX-Kind: upgrade\r\n\r\n", name)
					br := bufio.NewReader(conn)
					if resp, err := http.ReadResponse(br, nil); err == nil {
						inc(&statuses, fmt.Sprint(resp.StatusCode))
						if resp.StatusCode == 101 {
							upgTotal.Add(1)
							conn.Write([]byte("ping"))
							b := make([]byte, 4)
							io.ReadFull(br, b)
							time.Sleep(time.Duration(r.IntN(30)) * time.Millisecond)
						}
					}
					conn.Close()
					reqTotal.Add(1)
					continue
				}
				method, body := "GET", io.Reader(nil)
				if kind == "post" {
					method, body = "POST", strings.NewReader(strings.Repeat("b", 2000))
				}
				req, _ := http.NewRequestWithContext(ctx, method, "http://"+addr+path, body)
				req.Host = name + ".example"
				req.Header.Set("X-Kind", kind)
				if kind == "cookie" {
					req.Header.Set("Cookie", "kamal-rollout=u"+fmt.Sprint(r.IntN(3)))
				}
				if kind == "slow" {
					req.Header.Set("X-Sleep", "30ms")
				}
				resp, err := hc.Do(req)
				reqTotal.Add(1)
				if err != nil {
					inc(&statuses, "error")
					continue
				}
				io.Copy(io.Discard, resp.Body)
				resp.Body.Close()
				inc(&statuses, fmt.Sprint(resp.StatusCode))
			}
		}()
	}
	back := make(chan struct{})
	go func() { wg.Wait(); close(back) }()
	select {
	case <-back:
	case <-time.After(90 * time.Second):
		// the stress ended 90s ago (every client call and command has a timeout far below that)
		buf := make([]byte, 1<<20)
		dump := string(buf[:runtime.Stack(buf, true)])
		if v := classifyDump(dump); v == "deadlock" {
			run.Violate("deadlock:during-stress", "operators or clients did not come back within 90s after the stress was called off: goroutines of the proxy are blocked on its locks", sc, strings.Split(trunc(dump, 60000), "\n"))
			panic("deadlock in the proxy (stress): abandoning this monitor process")
		} else {
			run.Inconclusive("stress did not wind down within the watchdog but the dump is not a lock deadlock (%s)", v)
		}
		return
	}
	jitterOn.Store(false)
	// ---- bounded-progress epilogue ----
	done := make(chan string, 1)
	go func() {
		router.ListActiveServices()
		for _, n := range append(names, "alpha-api", "beta-api", "gamma-api") {
			router.ResumeService(n)
		}
		for _, f := range flaps {
			f.Store(false)
		}
		so := server.ServiceOptions{TLSRedirect: true, Hosts: []string{"epilogue.example"}}
		if err := router.DeployService("epilogue", []string{targets[0]}, so, to(), 5*time.Second, time.Second); err != nil {
			done <- "epilogue deploy failed: " + err.Error()
			return
		}
		req, _ := http.NewRequest("GET", "http://"+addr+"/e", nil)
		req.Host = "epilogue.example"
		resp, err := hc.Do(req)
		if err != nil {
			done <- "epilogue request failed: " + err.Error()
			return
		}
		io.Copy(io.Discard, resp.Body)
		resp.Body.Close()
		if resp.StatusCode != 200 {
			done <- fmt.Sprintf("epilogue request got %d", resp.StatusCode)
			return
		}
		for name := range router.ListActiveServices() {
			router.RemoveService(name)
		}
		done <- ""
	}()
	select {
	case msg := <-done:
		if msg != "" {
			run.Violate("epilogue:"+strings.SplitN(msg, ":", 2)[0], "after the stress the proxy does not work normally: "+msg, sc, nil)
			return
		}
	case <-time.After(60 * time.Second):
		buf := make([]byte, 1<<20)
		n := runtime.Stack(buf, true)
		dump := string(buf[:n])
		verdict := classifyDump(dump)
		if verdict == "deadlock" {
			run.Violate("deadlock", "the epilogue (list, resume, deploy, request, remove) did not complete within 60s: goroutines of the proxy are blocked on its locks and none is runnable", sc, strings.Split(trunc(dump, 60000), "\n"))
			panic("deadlock in the proxy (epilogue): abandoning this monitor process")
		} else {
			run.Inconclusive("epilogue did not complete within the watchdog but the dump is not a lock deadlock (%s)", verdict)
		}
		return
	}
	cmdCount.Range(func(k, v any) bool { run.Count("cmd_"+k.(string), int(v.(*atomic.Int64).Load())); return true })
	statuses.Range(func(k, v any) bool { run.Count("status_"+k.(string), int(v.(*atomic.Int64).Load())); return true })
	run.Count("requests", int(reqTotal.Load()))
	run.Count("upgraded_connections", int(upgTotal.Load()))
	run.Count("hook_events", int(hookN.Load()))
	inflightMu.Lock()
	for p := range overlaps {
		run.Class("overlap|" + p)
	}
	inflightMu.Unlock()
	run.Sample(map[string]any{"scenario": sc, "requests": reqTotal.Load(), "upgraded": upgTotal.Load(), "hook_events": hookN.Load()})
	_ = filepath.Join
}

// c18Gate: the pause gate under fire. One service is switched between running, paused and stopped
// by operators that never rest while clients call the router in-process (no sockets, so that the
// gate is passed hundreds of thousands of times); list commands take the router's lock in between.
// Bounded progress: when the storm is called off every operator and client must come back.
func c18Gate(t *testing.T, run *Run, g int, desc any) {
	run.Eval()
	RestoreHTTPDefaults()
	dir, err := os.MkdirTemp("", "vh-c18g-")
	if err != nil {
		run.Inconclusive("tempdir: %v", err)
		return
	}
	defer os.RemoveAll(dir)
	tgt := c18Target("gate", &atomic.Bool{})
	defer func() { tgt.CloseClientConnections(); tgt.Close() }()
	router := server.NewRouter(filepath.Join(dir, "state.json"))
	o := server.TargetOptions{HealthCheckConfig: server.HealthCheckConfig{Path: "/up", Interval: 10 * time.Millisecond, Timeout: time.Second}, ResponseTimeout: 2 * time.Second}
	so := server.ServiceOptions{Hosts: []string{"gate.example"}}
	if err := router.DeployService("gate", []string{strings.TrimPrefix(tgt.URL, "http://")}, so, o, 5*time.Second, time.Second); err != nil {
		run.Inconclusive("gate storm setup: %v", err)
		return
	}
	ctx, cancel := context.WithTimeout(context.Background(), 2500*time.Millisecond)
	defer cancel()
	var wg sync.WaitGroup
	var passes, cmds atomic.Int64
	var statuses sync.Map
	for op := 0; op < 3; op++ {
		r := rand.New(rand.NewPCG(run.Seed+uint64(g), uint64(op)+91))
		wg.Add(1)
		go func() {
			defer wg.Done()
			for ctx.Err() == nil {
				switch r.IntN(8) {
				case 0, 1:
					router.StopService("gate", time.Millisecond, "stopped by the storm")
				case 2:
					router.PauseService("gate", time.Millisecond, 2*time.Millisecond)
				case 3, 4:
					router.ResumeService("gate")
				case 5:
					router.ListActiveServices()
				default:
					// leave the state alone for a moment so that requests pile up against it
					time.Sleep(time.Duration(r.IntN(300)) * time.Microsecond)
				}
				cmds.Add(1)
			}
		}()
	}
	for c := 0; c < 12; c++ {
		c := c
		wg.Add(1)
		go func() {
			defer wg.Done()
			for ctx.Err() == nil {
				path := "/"
				if c%4 == 3 {
					path = "/up"
				}
				req := httptest.NewRequest("GET", "http://gate.example"+path, nil).WithContext(ctx)
				rec := httptest.NewRecorder()
				router.ServeHTTP(rec, req)
				passes.Add(1)
				v, _ := statuses.LoadOrStore(rec.Code, &atomic.Int64{})
				v.(*atomic.Int64).Add(1)
			}
		}()
	}
	back := make(chan struct{})
	go func() { wg.Wait(); close(back) }()
	select {
	case <-back:
	case <-time.After(90 * time.Second):
		buf := make([]byte, 1<<20)
		dump := string(buf[:runtime.Stack(buf, true)])
		if v := classifyDump(dump); v == "deadlock" {
			run.Violate("deadlock:gate-storm", "stop/pause/resume/list against requests for one service: the storm was called off 90s ago but operators or requests are still blocked on the proxy's locks", desc, strings.Split(trunc(dump, 60000), "\n"))
			// the blocked goroutines never come back: this process cannot run further scenarios
			panic("deadlock in the proxy (gate storm): abandoning this monitor process")
		} else {
			run.Inconclusive("gate storm did not wind down within the watchdog but the dump is not a lock deadlock (%s)", v)
		}
		return
	}
	router.ResumeService("gate")
	router.RemoveService("gate")
	run.Count("gate_storm_requests", int(passes.Load()))
	run.Count("gate_storm_commands", int(cmds.Load()))
	statuses.Range(func(k, v any) bool {
		run.Count(fmt.Sprintf("gate_storm_status_%d", k.(int)), int(v.(*atomic.Int64).Load()))
		return true
	})
	if passes.Load() < 1000 {
		run.Inconclusive("gate storm: only %d requests passed", passes.Load())
	}
}

// liveDispose (used by C17 and C18): commands against probe results that change state. Real time,
// real sockets: two-target services whose targets alternate between passing and failing every
// probe (interval 5ms, so every probe result changes the target's state and is reported to its
// load balancer), a short real delay at the hook just before that report, and operators that
// deploy, redeploy (which disposes the replaced targets) and remove without rest. Bounded
// progress: every command must return within its own timeouts plus a minute; one that does not is
// judged from the goroutine dump.
func liveDispose(t *testing.T, run *Run, g int, desc any) {
	run.Eval()
	RestoreHTTPDefaults()
	dir, err := os.MkdirTemp("", "vh-disp-")
	if err != nil {
		run.Inconclusive("tempdir: %v", err)
		return
	}
	defer os.RemoveAll(dir)
	var hookN atomic.Int64
	hook := func(point string, args ...any) {
		if point == "target.health.notifying" && hookN.Add(1)%3 == 0 {
			time.Sleep(2 * time.Millisecond)
		}
	}
	server.VerifHook.Store(&hook)
	defer server.VerifHook.Store(nil)
	var servers []*httptest.Server
	var targets []string
	for i := 0; i < 6; i++ {
		var n atomic.Int64
		s := httptest.NewServer(http.HandlerFunc(func(w http.ResponseWriter, r *http.Request) {
			if r.URL.Path == "/up" && n.Add(1)%2 == 0 {
				w.WriteHeader(500)
				return
			}
			w.WriteHeader(200)
		}))
		servers = append(servers, s)
		targets = append(targets, strings.TrimPrefix(s.URL, "http://"))
	}
	defer func() {
		for _, s := range servers {
			s.CloseClientConnections()
			s.Close()
		}
	}()
	router := server.NewRouter(filepath.Join(dir, "state.json"))
	o := server.TargetOptions{HealthCheckConfig: server.HealthCheckConfig{Path: "/up", Interval: 5 * time.Millisecond, Timeout: time.Second}, ResponseTimeout: 2 * time.Second}
	names := []string{"d0", "d1"}
	ctx, cancel := context.WithTimeout(context.Background(), 2*time.Second)
	defer cancel()
	var wg sync.WaitGroup
	var cmds atomic.Int64
	stuck := make(chan string, 8)
	for op := 0; op < 2; op++ {
		r := rand.New(rand.NewPCG(run.Seed+uint64(g), uint64(op)+733))
		name := names[op]
		wg.Add(1)
		go func() {
			defer wg.Done()
			for ctx.Err() == nil {
				kind := []string{"deploy", "deploy", "deploy", "remove"}[r.IntN(4)]
				ret := make(chan struct{})
				go func() {
					defer close(ret)
					switch kind {
					case "deploy":
						so := server.ServiceOptions{Hosts: []string{name + ".example"}}
						router.DeployService(name, []string{targets[r.IntN(len(targets))], targets[r.IntN(len(targets))]}, so, o, 300*time.Millisecond, 50*time.Millisecond)
					case "remove":
						router.RemoveService(name)
					}
				}()
				select {
				case <-ret:
					cmds.Add(1)
				case <-time.After(61 * time.Second): // deploy-timeout 0.3s + drain-timeout 0.05s, and a minute
					stuck <- kind
					return
				}
			}
		}()
	}
	wg.Wait()
	select {
	case kind := <-stuck:
		buf := make([]byte, 1<<20)
		dump := string(buf[:runtime.Stack(buf, true)])
		if v := classifyDump(dump); v == "deadlock" {
			run.Violate("command-never-returned:"+kind, kind+" (deploy-timeout 300ms, drain-timeout 50ms) had not returned after a minute, with targets whose every probe changes their state: goroutines of the proxy are blocked on its locks", desc, strings.Split(trunc(dump, 60000), "\n"))
			panic("a command of the proxy never returned (dispose scenario): abandoning this monitor process")
		} else {
			run.Inconclusive("dispose scenario: a %s did not return within a minute but the dump is not a lock deadlock (%s)", kind, v)
		}
		return
	default:
	}
	for _, n := range names {
		router.RemoveService(n)
	}
	run.Count("dispose_commands", int(cmds.Load()))
	run.Count("dispose_state_changing_probe_reports", int(hookN.Load()))
	if hookN.Load() < 50 || cmds.Load() < 4 {
		run.Inconclusive("dispose scenario: only %d state-changing probe reports and %d commands", hookN.Load(), cmds.Load())
	}
}

// classifyDump: "deadlock" iff some goroutine is blocked in a sync lock under a frame of the
// repository and no goroutine running repository code is runnable/running.
func classifyDump(dump string) string {
	blocked, runnable, stuck := 0, 0, 0
	for _, g := range strings.Split(dump, "\n\n") {
		if !strings.Contains(g, "kamal-proxy/internal/server.") {
			continue
		}
		head := strings.SplitN(g, "\n", 2)[0]
		switch {
		case strings.Contains(head, "sync.Mutex.Lock") || strings.Contains(head, "sync.RWMutex") || strings.Contains(head, "semacquire"):
			blocked++
			if strings.Contains(head, " minutes]") {
				stuck++ // has been waiting for a lock of the proxy for at least a minute
			}
		case strings.Contains(head, "[running]") || strings.Contains(head, "[runnable]"):
			runnable++
		}
	}
	if blocked > 0 && (runnable == 0 || stuck > 0) {
		return "deadlock"
	}
	return fmt.Sprintf("blocked=%d runnable=%d", blocked, runnable)
}
