package verifharness

// C06 A command that fails changes nothing and leaves nothing running.

import (
	"fmt"
	"math/rand/v2"
	"os"
	"path/filepath"
	"strings"
	"sync"
	"testing"
	"testing/synctest"
	"time"

	"github.com/basecamp/kamal-proxy/internal/server"
)

var c06Classes = []string{
	"bad-target-first", "bad-target-last", "bad-target-rollout",
	"never-healthy-all", "never-healthy-one", "never-healthy-rollout", "never-healthy-new-service", "never-healthy-hanging",
	"badcert", "missingcert", "pages-missing", "pages-unparsable", "pages-empty",
	"acme-wildcard", "conflict-new", "conflict-move",
	"unknown-pause", "unknown-stop", "unknown-resume", "unknown-remove", "unknown-rollout-deploy", "unknown-rollout-set", "unknown-rollout-stop",
	"split-without-rollout",
	"conflict-race",
	"overlap-same-name-unhealthy", "overlap-same-name-conflict",
	"state-unwritable-deploy", "state-unwritable-rollout",
	// failing commands whose targets change health while the command is still in progress
	"flap-unhealthy-timeout", "flap-unhealthy-new-service", "flap-unhealthy-rollout",
	"flap-conflict-new", "flap-conflict-move",
}

type c06Scenario struct {
	Idx     int       `json:"idx"`
	History []Cmd     `json:"history"`
	Class   string    `json:"class"`
	Fail    Cmd       `json:"failing_command"`
	Flaps   []c06Flap `json:"flapping_targets,omitempty"` // filled in when the failing command is staged
}

func failProbe(n int, at time.Duration) ProbeAct { return ProbeAct{Status: 500} }

// hangProbe: the health endpoint accepts the probe and never answers
func hangProbe(n int, at time.Duration) ProbeAct { return ProbeAct{Status: 200, Delay: time.Hour} }

// c06Flap scripts the health endpoint of a target whose health changes while the command that
// names it is still in progress: it passes its first Up probes (so the command's wait for it is
// over and nothing of the command looks at it any more) and fails later ones.
type c06Flap struct {
	Pattern string `json:"pattern"` // down: fails from then on; blip: fails Down probes, then passes again; alternate: fails every other probe
	Up      int    `json:"up"`
	Down    int    `json:"down,omitempty"`
	How     string `json:"how"` // status | close | refuse | hang
}

func c06GenFlap(rng *rand.Rand) c06Flap {
	fl := c06Flap{Up: 1 + rng.IntN(2)}
	fl.Pattern = pick(rng, []string{"down", "down", "down", "blip", "alternate"})
	fl.How = pick(rng, []string{"status", "status", "close", "refuse", "hang"})
	if fl.Pattern == "blip" {
		fl.Down = 1 + rng.IntN(3)
	}
	return fl
}

func (fl c06Flap) probe() func(n int, at time.Duration) ProbeAct {
	return func(n int, at time.Duration) ProbeAct {
		bad := false
		switch {
		case n < fl.Up:
		case fl.Pattern == "down":
			bad = true
		case fl.Pattern == "blip":
			bad = n < fl.Up+fl.Down
		default:
			bad = (n-fl.Up)%2 == 0
		}
		if !bad {
			return ProbeAct{Status: 200}
		}
		switch fl.How {
		case "close":
			return ProbeAct{Close: true}
		case "refuse":
			return ProbeAct{Refuse: true}
		case "hang":
			return ProbeAct{Status: 200, Delay: time.Hour}
		}
		return ProbeAct{Status: 503}
	}
}

// c06NeverProbe: one of the ways in which a target never becomes healthy
func c06NeverProbe(rng *rand.Rand) func(n int, at time.Duration) ProbeAct {
	switch rng.IntN(4) {
	case 0:
		return hangProbe
	case 1:
		return func(n int, at time.Duration) ProbeAct { return ProbeAct{Refuse: true} }
	}
	return failProbe
}

// c06StageFlapping gives every target of the failing command a role: the target at position hold
// keeps the command waiting (script holdProbe), every other target becomes healthy with its first
// probe and then either stays so or - at least one of them - flaps.
func c06StageFlapping(w *World, run *Run, rng *rand.Rand, targets []string, hold int, holdProbe func(n int, at time.Duration) ProbeAct) []c06Flap {
	var flaps []c06Flap
	flapper := rng.IntN(len(targets) - 1) // this one (counted among the others) always flaps
	k := 0
	for i, tn := range targets {
		if i == hold {
			w.AddTarget(tn, holdProbe)
			continue
		}
		if k == flapper || rng.IntN(2) == 0 {
			fl := c06GenFlap(rng)
			flaps = append(flaps, fl)
			w.AddTarget(tn, fl.probe())
			run.Count("flap_"+fl.Pattern+"_"+fl.How, 1)
		} else {
			w.AddTarget(tn, nil)
		}
		k++
	}
	return flaps
}

func c06Gen(rng *rand.Rand, idx int) c06Scenario {
	sc := c06Scenario{Idx: idx, Class: c06Classes[idx%len(c06Classes)]}
	g := NewCmdGen(rng)
	n := 2 + rng.IntN(11)
	// make sure at least two services exist early so that conflicts can be staged
	sc.History = append(sc.History, g.Deploy("s0"), g.Deploy("s1"))
	sc.History[0].Hosts, sc.History[1].Hosts = []string{"h0.example"}, []string{"h1.example"}
	g.exists["s0"], g.exists["s1"] = true, true
	for i := 0; i < n; i++ {
		sc.History = append(sc.History, g.Next())
	}
	return sc
}

func TestC06(t *testing.T) {
	run := NewRun(t, "C06")
	defer run.Finish()
	n := run.N(len(c06Classes)*12, len(c06Classes)*700)
	for i := 0; i < n; i++ {
		sc := c06Gen(run.Rand(i), i)
		if !run.Mine(i, sc) {
			continue
		}
		synctest.Test(t, func(t *testing.T) { c06Run(t, run, sc, run.Rand(i+1<<30)) })
	}
}

func c06Run(t *testing.T, run *Run, sc c06Scenario, rng *rand.Rand) {
	w := NewWorld(t, WorldOpt{TLSListener: true})
	defer w.Close()
	run.Eval()
	p := w.Primary()
	var histRecs []*CmdRec
	for _, c := range sc.History {
		rec := c.Exec(w, w.Router)
		histRecs = append(histRecs, rec)
		if rec.Panic != "" {
			run.Violate("panic:"+c.Kind, "command panicked: "+rec.Panic, sc, w.Trace(100))
			return
		}
	}
	list := w.Router.ListActiveServices()
	var existing []string
	for name := range list {
		existing = append(existing, name)
	}
	if len(existing) == 0 {
		run.Count("skipped_empty_configuration", 1)
		return
	}
	// stage the failing command from the configuration actually reached
	g := NewCmdGen(rng)
	g.gen = 1000
	victim := existing[rng.IntN(len(existing))]
	f := g.Deploy(victim)
	// half of the time the failing redeploy repeats the victim's last successful deploy with exactly
	// one target/service option changed (an operator adjusting one setting, with a bad target)
	var lastOK *Cmd
	for i := range sc.History {
		if c := sc.History[i]; c.Kind == "deploy" && c.Svc == victim && i < len(histRecs) && histRecs[i].Err == "" {
			lastOK = &sc.History[i]
		}
	}
	if lastOK != nil && rng.IntN(2) == 0 {
		g.last[victim] = *lastOK
		f = g.Tweak(victim)
	}
	f.DeployTO = 2 * time.Second
	var rejected []string
	mustFail := true
	switch sc.Class {
	// (the well-formed targets named next to a malformed one are rejected with it: they exist, they
	// are healthy, and nothing may probe them once the command has failed)
	case "bad-target-first":
		rejected = append([]string{}, f.Targets...)
		f.Targets = append([]string{"bad name!"}, f.Targets...)
	case "bad-target-last":
		rejected = append([]string{}, f.Targets...)
		f.Targets = append(f.Targets, "x")
	case "bad-target-rollout":
		f = Cmd{Kind: "rollout-deploy", Svc: victim, Targets: []string{"ok-target:80", "-bad"}, DeployTO: 2 * time.Second, DrainTO: time.Second}
		rejected = []string{"ok-target:80"}
	case "never-healthy-all", "never-healthy-one", "never-healthy-new-service":
		if sc.Class == "never-healthy-new-service" {
			f.Svc, f.Hosts = "s9", []string{"h9.example"}
		}
		if sc.Class == "never-healthy-one" && rng.IntN(2) == 0 {
			// the operator lists a (healthy) target twice
			f.Targets = append([]string{f.Targets[0]}, f.Targets...)
			run.Count("failing_deploy_listing_a_target_twice", 1)
		}
		for i, tn := range f.Targets {
			if sc.Class != "never-healthy-one" || i == len(f.Targets)-1 {
				w.AddTarget(tn, failProbe)
			}
		}
		rejected = f.Targets
	case "never-healthy-hanging":
		// every probe hangs: one is in flight (it would run until the 5s health-check timeout) at the
		// moment the deploy gives up
		f.HCTO = 5 * time.Second
		for _, tn := range f.Targets {
			w.AddTarget(tn, hangProbe)
		}
		rejected = f.Targets
	case "flap-unhealthy-timeout", "flap-unhealthy-new-service", "flap-unhealthy-rollout":
		// one target never becomes healthy and keeps the command waiting until the deploy timeout; its
		// siblings became healthy long before and some of them have failed probes since (so they are out
		// of the new load balancer's rotation, or back in it, at the moment the command gives up)
		ivl := pick(rng, []time.Duration{200 * time.Millisecond, 500 * time.Millisecond, time.Second})
		f.HCIv, f.HCTO = ivl, pick(rng, []time.Duration{300 * time.Millisecond, 5 * time.Second})
		f.DeployTO = pick(rng, []time.Duration{2500 * time.Millisecond, 3300 * time.Millisecond})
		switch sc.Class {
		case "flap-unhealthy-new-service":
			f.Svc, f.Hosts = "s9", []string{"h9.example"}
		case "flap-unhealthy-rollout":
			// (a rollout deploy probes with the health-check settings of the service: 1s or 2s apart)
			f = Cmd{Kind: "rollout-deploy", Svc: victim, Targets: g.targets(victim, "r"), DeployTO: pick(rng, []time.Duration{4500 * time.Millisecond, 6500 * time.Millisecond}), DrainTO: time.Second}
		}
		for len(f.Targets) < 2 {
			f.Targets = append(f.Targets, fmt.Sprintf("%s-f%d-%d:80", f.Svc, g.gen, len(f.Targets)))
		}
		sc.Flaps = c06StageFlapping(w, run, rng, f.Targets, rng.IntN(len(f.Targets)), c06NeverProbe(rng))
		rejected = f.Targets
	case "never-healthy-rollout":
		f = Cmd{Kind: "rollout-deploy", Svc: victim, Targets: g.targets(victim, "r"), DeployTO: 2 * time.Second, DrainTO: time.Second}
		w.AddTarget(f.Targets[0], failProbe)
		rejected = f.Targets
	case "badcert", "missingcert":
		f.TLS = sc.Class
		if len(f.Hosts) == 0 {
			f.Hosts = []string{"h" + victim[1:] + ".example"}
		}
		f.Prefixes = nil
	case "pages-missing":
		f.Pages = "missing"
	case "pages-unparsable":
		f.Pages = "badpages"
	case "pages-empty":
		f.Pages = "emptypages"
	case "acme-wildcard":
		f.TLS, f.Hosts, f.Prefixes = "acme", []string{"*.wild.example"}, nil
	case "conflict-new", "conflict-move", "flap-conflict-new", "flap-conflict-move":
		// claim a pair owned by some other service
		isNew := strings.HasSuffix(sc.Class, "conflict-new")
		var other string
		for _, name := range existing {
			if name != victim || isNew {
				other = name
				break
			}
		}
		if other == "" {
			run.Count("skipped_no_second_service", 1)
			return
		}
		d := list[other]
		h := strings.Split(d.Host, ",")[0]
		if h == "*" {
			f.Hosts = nil
		} else {
			f.Hosts = []string{h}
		}
		f.Prefixes = []string{strings.Split(d.Path, ",")[0]}
		f.TLS = ""
		if isNew {
			f.Svc = "s9"
		}
		if strings.HasPrefix(sc.Class, "flap-") {
			// the conflict is only found at the install step, which waits for the slowest target: that
			// one takes a while to become healthy (a slow first answer, or a few failed probes first),
			// and in the meantime its siblings, healthy since their first probe, fail later ones
			f.HCIv, f.HCTO = pick(rng, []time.Duration{300 * time.Millisecond, 500 * time.Millisecond, time.Second}), 5*time.Second
			f.DeployTO = 6 * time.Second
			for len(f.Targets) < 2 {
				f.Targets = append(f.Targets, fmt.Sprintf("%s-f%d-%d:80", f.Svc, g.gen, len(f.Targets)))
			}
			slow := pick(rng, []time.Duration{1700 * time.Millisecond, 2300 * time.Millisecond, 3100 * time.Millisecond})
			holdProbe := func(n int, at time.Duration) ProbeAct { return ProbeAct{Status: 200, Delay: slow} }
			if rng.IntN(2) == 0 {
				first := int(slow/f.HCIv) + 1
				holdProbe = func(n int, at time.Duration) ProbeAct {
					if n < first {
						return ProbeAct{Status: 500}
					}
					return ProbeAct{Status: 200}
				}
			}
			sc.Flaps = c06StageFlapping(w, run, rng, f.Targets, rng.IntN(len(f.Targets)), holdProbe)
		} else if rng.IntN(3) == 0 {
			f.Targets = append(f.Targets, f.Targets[0]) // a target listed twice
			run.Count("failing_deploy_listing_a_target_twice", 1)
		} else if len(f.Targets) >= 2 && rng.IntN(2) == 0 {
			// the last target needs 1.5s for its first probe; the others answer their first probe at
			// once and take 900ms for every later one: when the conflict is reported (1.5s) a probe of
			// each of them is in flight
			f.HCIv, f.HCTO = time.Second, 5*time.Second
			for i, tn := range f.Targets {
				if i == len(f.Targets)-1 {
					w.AddTarget(tn, func(n int, at time.Duration) ProbeAct { return ProbeAct{Status: 200, Delay: 1500 * time.Millisecond} })
				} else {
					w.AddTarget(tn, func(n int, at time.Duration) ProbeAct {
						if n == 0 {
							return ProbeAct{Status: 200}
						}
						return ProbeAct{Status: 200, Delay: 900 * time.Millisecond}
					})
				}
			}
			run.Count("conflict_with_probe_in_flight", 1)
		}
		rejected = f.Targets
	case "conflict-race":
		c06Race(w, run, sc, g, existing, list)
		return
	case "overlap-same-name-unhealthy", "overlap-same-name-conflict":
		c06SameName(w, run, sc, existing)
		return
	case "state-unwritable-deploy", "state-unwritable-rollout":
		// not an error of the list, and on this tree not an error at all (a snapshot that cannot be
		// written is logged): a healthy redeploy while the snapshot's temporary path is unusable. Should
		// the command report an error all the same, what the statement says of every reported error
		// applies to it.
		mustFail = false
		if sc.Class == "state-unwritable-rollout" {
			f = Cmd{Kind: "rollout-deploy", Svc: victim, Targets: g.targets(victim, "r"), DeployTO: 2 * time.Second, DrainTO: time.Second}
		}
		os.MkdirAll(filepath.Join(w.StatePath+".tmp", "in-the-way"), 0o755)
		defer os.RemoveAll(w.StatePath + ".tmp")
		rejected = f.Targets
	case "split-without-rollout":
		mustFail = false
		for _, name := range existing {
			// a service without rollout targets: none of its state-file rollout targets
			f = Cmd{Kind: "rollout-set", Svc: name, Pct: 50}
		}
		// only decided when the service really has no rollout targets (checked from the state file below)
	default:
		kind := strings.TrimPrefix(sc.Class, "unknown-")
		f = Cmd{Kind: kind, Svc: "nosuch", Targets: []string{"nosuch-r1-0:80"}, DeployTO: 2 * time.Second, DrainTO: time.Second, MaxPause: time.Second, Pct: 10}
	}
	if f.Kind == "rollout-deploy" && f.Svc == victim && rng.IntN(2) == 0 {
		// make sure there is something to lose: rollout targets with a split in force
		prep := Cmd{Kind: "rollout-deploy", Svc: victim, Targets: g.targets(victim, "r"), DeployTO: 5 * time.Second, DrainTO: time.Second}
		if rec := prep.Exec(w, w.Router); rec.Err == "" {
			(Cmd{Kind: "rollout-set", Svc: victim, Pct: 50, Allow: []string{"alpha", "beta"}}).Exec(w, w.Router)
			run.Count("failing_rollout_deploy_with_split_in_force", 1)
		}
	}
	sc.Fail = f
	before := Observe(w, p, "before", true)
	if sc.Class == "split-without-rollout" {
		// pick a service whose saved state has no rollout targets
		f.Svc = ""
		for name := range list {
			if strings.Contains(before["statefile"], `"name":"`+name+`"`) {
				seg := before["statefile"][strings.Index(before["statefile"], `"name":"`+name+`"`):]
				if i := strings.Index(seg, `"rollout_targets":`); i >= 0 && strings.HasPrefix(seg[i+len(`"rollout_targets":`):], "null") {
					f.Svc, mustFail = name, true
				}
			}
		}
		if f.Svc == "" {
			run.Count("skipped_every_service_has_rollout", 1)
			return
		}
		sc.Fail = f
	}
	// what the targets of the configuration see of the health checks (path, cadence) before the command
	time.Sleep(12 * time.Second)
	probesBefore := probeView(w, w.Now()-10*time.Second, w.Now())
	rec := f.Exec(w, w.Router)
	fail := func(sig, format string, a ...any) {
		run.Violate(sig, fmt.Sprintf(format, a...), sc, func() []string { return w.Trace(200) })
	}
	if rec.Panic != "" {
		fail("panic:"+sc.Class, "failing command panicked: %s", rec.Panic)
		return
	}
	if rec.Err == "" {
		if mustFail {
			fail("expected-failure-succeeded:"+sc.Class, "command of class %s returned no error", sc.Class)
		} else {
			run.Count("not_failed_not_judged", 1)
		}
		return
	}
	// nothing keeps running: watch the rejected targets for 20 probe intervals
	time.Sleep(20 * 2 * time.Second)
	if len(sc.Flaps) > 0 {
		// (coverage only) how many rejected targets had passed a probe and were failing - out of the
		// rejected load balancer's rotation - when the command reported its error
		for _, tn := range rejected {
			if ft := w.Target(tn); ft != nil {
				passed, last := false, true
				for _, pr := range ft.ProbeLog() {
					if pr.Ended && pr.End < rec.Ret {
						ok := pr.Passed(time.Hour)
						passed = passed || ok
						last = ok
					}
				}
				if passed && !last {
					run.Count("rejected_target_healthy_then_failing_at_failure", 1)
				} else if passed {
					run.Count("rejected_target_healthy_at_failure", 1)
				}
			}
		}
	}
	for _, tn := range rejected {
		if ft := w.Target(tn); ft != nil {
			for _, pr := range ft.ProbeLog() {
				if pr.Start > rec.Ret+Eps {
					fail("probe-after-failure:"+sc.Class, "target %s of the failed command (returned %v) was probed again at %v", tn, rec.Ret, pr.Start)
					return
				}
			}
			for _, pr := range ft.ProbeLog() {
				if pr.Start <= rec.Ret && (!pr.Ended || pr.End > rec.Ret+Eps) {
					fail("probe-open-after-failure:"+sc.Class, "target %s of the failed command (returned %v): the probe started at %v was still open afterwards (ended=%v at %v)", tn, rec.Ret, pr.Start, pr.Ended, pr.End)
					return
				}
			}
			for _, q := range ft.ReqLog() {
				fail("traffic-to-rejected-target:"+sc.Class, "target %s of the failed command received client request %s", tn, q.ID)
				return
			}
		}
	}
	// ... and everything that was running keeps running: the targets in service are probed as before
	probesAfter := probeView(w, w.Now()-10*time.Second, w.Now())
	for k, v := range probesBefore {
		if probesAfter[k] != v {
			fail("probing-changed:"+sc.Class, "failing command (%s, error %q): health checks seen by %s were %q before it and %q afterwards", sc.Class, rec.Err, k, v, probesAfter[k])
			return
		}
	}
	run.Count("probe_cadences_compared", len(probesBefore))
	// a command that fails but rewrites the state file: whatever the failed command left behind in
	// memory would be persisted now
	w.Cmd("rollout-stop", "nosuch", func() error { return w.Router.StopRollout("nosuch-service") })
	after := Observe(w, p, "after", true)
	if d := DiffObs(before, after); len(d) > 0 {
		what := d[0]
		kind := strings.SplitN(what, " ", 2)[0]
		kind = strings.SplitN(kind, "/", 2)[0]
		kind = strings.TrimSuffix(kind, ":")
		fail("state-changed:"+sc.Class+":"+kind, "failing command (%s, error %q) changed %d observables, first: %s", sc.Class, rec.Err, len(d), what)
		return
	}
	run.Count("observables_compared", len(before))
	run.Class(fmt.Sprintf("%s|services=%d|err=%s", sc.Class, len(existing), strings.SplitN(rec.Err, " (", 2)[0]))
	run.Sample(map[string]any{"class": sc.Class, "failing_command": f, "error": rec.Err, "history_len": len(sc.History), "services": existing, "observables": len(before)})
}

// c06SameName: a first deploy of a new service name that is going to fail (its targets never become
// healthy; or it claims a host somebody owns and finds out at the install step) overlaps a second
// deploy of the *same name* that succeeds in the meantime. When the first one reports its error,
// the service the second one installed is what it was: routed, listed, probed, saved.
func c06SameName(w *World, run *Run, sc c06Scenario, existing []string) {
	fail := func(sig, format string, a ...any) {
		run.Violate(sig, fmt.Sprintf(format, a...), sc, func() []string { return w.Trace(200) })
	}
	const name = "twin"
	hostA := "twin.example"
	if sc.Class == "overlap-same-name-conflict" {
		// A claims the host of an existing service (refused at the install step, once its slow-starting targets are healthy)
		w.AddTarget("owner-t0:80", nil)
		if c := w.Deploy("owner", []string{"owner-t0:80"}, server.ServiceOptions{TLSRedirect: true, Hosts: []string{"owned.example"}}, DefTO, 5*time.Second, time.Second); c.Err != "" {
			run.Inconclusive("setup deploy: %s", c.Err)
			return
		}
		hostA = "owned.example"
		w.AddTarget("twin-a0:80", func(n int, at time.Duration) ProbeAct {
			if n < 2 {
				return ProbeAct{Status: 500}
			}
			return ProbeAct{Status: 200}
		})
	} else {
		w.AddTarget("twin-a0:80", failProbe)
	}
	w.AddTarget("twin-b0:80", nil)
	t0 := w.Now() + time.Second
	var ra, rb *CmdRec
	w.At(t0, func() {
		ra = w.Deploy(name, []string{"twin-a0:80"}, server.ServiceOptions{TLSRedirect: true, Hosts: []string{hostA}}, DefTO, 3*time.Second, time.Second)
	})
	w.At(t0+500*time.Millisecond, func() {
		rb = w.Deploy(name, []string{"twin-b0:80"}, server.ServiceOptions{TLSRedirect: true, Hosts: []string{"twin.example"}}, DefTO, 3*time.Second, time.Second)
	})
	w.Wait()
	if ra == nil || rb == nil || ra.Panic != "" || rb.Panic != "" {
		fail("panic:"+sc.Class, "overlapping deploys of one name: %+v %+v", ra, rb)
		return
	}
	if rb.Err != "" {
		run.Count("second_deploy_failed_not_judged", 1)
		return
	}
	if ra.Err == "" {
		fail("expected-failure-succeeded:"+sc.Class, "the first deploy of %s returned no error", name)
		return
	}
	if ra.Ret <= rb.Ret {
		run.Count("first_deploy_failed_before_the_second_installed", 1)
	}
	time.Sleep(10 * time.Second)
	r := w.Do(Req{ID: "twin-after", Host: "twin.example", Path: "/"})
	if r.Status != 200 || r.Target != "twin-b0:80" {
		fail("state-changed:"+sc.Class+":routing", "deploy of %s failed at %v (%s); the service a second deploy of that name had installed at %v now answers status=%d target=%q", name, ra.Ret, ra.Err, rb.Ret, r.Status, r.Target)
		return
	}
	if d, ok := w.Router.ListActiveServices()[name]; !ok || !strings.Contains(d.Target, "twin-b0:80") {
		fail("state-changed:"+sc.Class+":list", "deploy of %s failed (%s); the service installed by the overlapping deploy is listed as %+v (present=%v)", name, ra.Err, d, ok)
		return
	}
	probed := false
	for _, pr := range w.Target("twin-b0:80").ProbeLog() {
		if pr.Start > ra.Ret+3*time.Second {
			probed = true
		}
	}
	if !probed {
		fail("state-changed:"+sc.Class+":probing", "deploy of %s failed at %v (%s); the target installed by the overlapping deploy has not been probed since", name, ra.Ret, ra.Err)
		return
	}
	for _, pr := range w.Target("twin-a0:80").ProbeLog() {
		if pr.Start > ra.Ret+Eps {
			fail("probe-after-failure:"+sc.Class, "target twin-a0:80 of the failed deploy (returned %v) was probed again at %v", ra.Ret, pr.Start)
			return
		}
	}
	w.Cmd("rollout-stop", "nosuch", func() error { return w.Router.StopRollout("nosuch-service") })
	if data, err := os.ReadFile(w.StatePath); err != nil || !strings.Contains(string(data), `"twin-b0:80"`) || strings.Contains(string(data), `"twin-a0:80"`) {
		fail("state-changed:"+sc.Class+":statefile", "deploy of %s failed (%s); the saved state does not describe the service installed by the overlapping deploy (read error %v)", name, ra.Err, err)
		return
	}
	run.Class(fmt.Sprintf("%s|services=%d|err=%s", sc.Class, len(existing), strings.SplitN(ra.Err, " (", 2)[0]))
}

// c06Race: two deploys by different (new) services claiming the same free pair are held at the hook
// just before the install step and released together. Exactly one is rejected (late: its targets
// were created, probed and found healthy); the rejected one must leave nothing running and the
// configuration must be "what it was before plus the winner".
func c06Race(w *World, run *Run, sc c06Scenario, g *CmdGen, existing []string, list map[string]server.ServiceDescription) {
	fail := func(sig, format string, a ...any) {
		run.Violate(sig, fmt.Sprintf(format, a...), sc, func() []string { return w.Trace(200) })
	}
	a, b := g.Deploy("race-a"), g.Deploy("race-b")
	for _, c := range []*Cmd{&a, &b} {
		c.Hosts, c.Prefixes, c.TLS, c.Pages = []string{"race.example"}, nil, "", ""
	}
	var mu sync.Mutex
	arrived := 0
	gate := make(chan struct{})
	w.mu.Lock()
	w.OnHook = func(h HookRec) {
		if h.Point != "deploy.healthy" || !strings.HasPrefix(h.Name, "race-") {
			return
		}
		mu.Lock()
		arrived++
		if arrived == 2 {
			close(gate)
		}
		mu.Unlock()
		select {
		case <-gate:
		case <-w.done:
		}
	}
	w.mu.Unlock()
	var ra, rb *CmdRec
	var wg sync.WaitGroup
	wg.Add(2)
	go func() { defer wg.Done(); ra = a.Exec(w, w.Router) }()
	go func() { defer wg.Done(); rb = b.Exec(w, w.Router) }()
	wg.Wait()
	w.mu.Lock()
	w.OnHook = nil
	w.mu.Unlock()
	if ra.Panic != "" || rb.Panic != "" {
		fail("panic:conflict-race", "racing deploys panicked: %s %s", ra.Panic, rb.Panic)
		return
	}
	if (ra.Err == "") == (rb.Err == "") {
		fail("race-not-exactly-one-winner", "two deploys raced for host race.example: results %q and %q", ra.Err, rb.Err)
		return
	}
	loser, lrec := a, ra
	if ra.Err == "" {
		loser, lrec = b, rb
	}
	time.Sleep(20 * 2 * time.Second)
	for _, tn := range loser.Targets {
		if ft := w.Target(tn); ft != nil {
			for _, pr := range ft.ProbeLog() {
				if pr.Start > lrec.Ret+Eps {
					fail("probe-after-failure:conflict-race", "target %s of the deploy that lost the race (returned %v with %q) was probed again at %v", tn, lrec.Ret, lrec.Err, pr.Start)
					return
				}
			}
			if len(ft.ReqLog()) > 0 {
				fail("traffic-to-rejected-target:conflict-race", "target %s of the rejected deploy received client requests", tn)
				return
			}
		}
	}
	now := w.Router.ListActiveServices()
	if len(now) != len(list)+1 {
		fail("state-changed:conflict-race:list", "after the race the proxy lists %d services, expected %d", len(now), len(list)+1)
		return
	}
	if _, ok := now[loser.Svc]; ok {
		fail("state-changed:conflict-race:list", "the rejected service %s is listed", loser.Svc)
		return
	}
	run.Class(fmt.Sprintf("conflict-race|services=%d", len(existing)))
}
