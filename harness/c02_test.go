package verifharness

// C02 No request fails while a service is redeployed (SIM placement grid).

import (
	"fmt"
	"math/rand/v2"
	"net/http"
	"net/http/httptest"
	"os"
	"path/filepath"
	"sort"
	"strings"
	"sync"
	"sync/atomic"
	"testing"
	"testing/synctest"
	"time"

	"github.com/basecamp/kamal-proxy/internal/server"
)

// deploy-side hook points whose order defines the gaps a request step can fall into
var c02Points = []string{"target.health.recorded", "target.health.notifying", "deploy.healthy", "deploy.lb.updated", "deploy.installed", "target.drain.begin", "target.drain.end", "deploy.drained"}

type c02Scenario struct {
	Idx       int             `json:"idx"`
	Slot      string          `json:"slot"`
	NOld      int             `json:"n_old"`
	NNew      int             `json:"n_new"`
	Redeploys int             `json:"redeploys"`
	Delays    []time.Duration `json:"point_delays"`  // per c02Points entry
	Slow      int             `json:"slow_inflight"` // background slow requests in flight per deploy
	SlowLat   time.Duration   `json:"slow_latency"`
	ArrStep   time.Duration   `json:"arrival_step"`
	ReqDelays []time.Duration `json:"req_delays"` // candidate d1/d2 values
	ProbeIv   time.Duration   `json:"probe_interval"`
	// TLSSub: the service under test is a sub-path service (/x, /z, /slow) on a host whose root
	// service has TLS; it inherits the TLS settings, and every client request arrives over TLS
	TLSSub bool `json:"tls_subpath,omitempty"`
	// ShortTT: the target timeout (which bounds the wait for response headers only) is shorter than
	// the time the slow in-flight responses need; they are all streamed (headers at once, second
	// half of the body after SlowLat) and must still arrive whole: the drain timeout is 5s. The deploy
	// timeout of these redeploys is 250ms: enough for the new targets, far less than the drain needs
	ShortTT bool `json:"short_target_timeout,omitempty"`
}

const c02Delta = 10*time.Millisecond + OffHook

func c02Gen(rng *rand.Rand, idx int, thorough bool) c02Scenario {
	sc := c02Scenario{Idx: idx, Slot: "active", NOld: 1, NNew: 1, Redeploys: 1, ArrStep: 5 * time.Millisecond, ProbeIv: 7 * time.Millisecond}
	uni := func(m int) []time.Duration {
		d := make([]time.Duration, len(c02Points))
		for i := range d {
			d[i] = time.Duration(m) * c02Delta
		}
		return d
	}
	rd := func(k int) []time.Duration {
		var out []time.Duration
		for i := 0; i < k; i++ {
			out = append(out, time.Duration(i)*c02Delta)
		}
		return out
	}
	switch idx {
	case 0: // the canonical grid: every deploy step 10ms apart, request steps swept over all gaps
		sc.Delays = uni(1)
		sc.ReqDelays = rd(9)
		return sc
	case 1: // rotation update held back: "healthy" is signalled long before the rotation is rebuilt
		sc.Delays = uni(1)
		sc.Delays[0] = 3 * c02Delta // after the probe result is recorded
		sc.Delays[1] = 3 * c02Delta // just before the load balancer is told
		sc.ReqDelays = rd(4)
		return sc
	case 2: // drain lasts (slow in-flight requests), so the begin..end gap is wide
		sc.Delays = uni(1)
		sc.Slow, sc.SlowLat = 2, 80*time.Millisecond+OffTarget
		sc.ReqDelays = rd(12)
		sc.ArrStep = 10 * time.Millisecond
		return sc
	case 3: // rollout slot
		sc.Slot = "rollout"
		sc.Delays = uni(1)
		sc.ReqDelays = rd(9)
		return sc
	case 5: // as 2, with a target timeout far below the duration of the streamed in-flight responses
		sc.Delays = uni(1)
		sc.Slow, sc.SlowLat = 3, 700*time.Millisecond+OffTarget
		sc.ShortTT = true
		sc.ReqDelays = rd(6)
		sc.ArrStep = 10 * time.Millisecond
		return sc
	case 4: // the canonical grid for a sub-path service under a TLS root, requests over TLS
		sc.TLSSub = true
		sc.Delays = uni(1)
		sc.ReqDelays = rd(6)
		return sc
	}
	sc.NOld, sc.NNew = 1+rng.IntN(3), 1+rng.IntN(3)
	if rng.IntN(3) == 0 {
		sc.Slot = "rollout"
	}
	sc.Redeploys = 1 + rng.IntN(3)
	if thorough {
		sc.Redeploys = 1 + rng.IntN(5)
	}
	sc.Delays = make([]time.Duration, len(c02Points))
	for i := range sc.Delays {
		sc.Delays[i] = time.Duration(pick(rng, []int{0, 1, 1, 2, 4})) * c02Delta
	}
	if rng.IntN(2) == 0 {
		sc.Slow, sc.SlowLat = 1+rng.IntN(3), time.Duration(20+rng.IntN(120))*time.Millisecond+OffTarget
	}
	sc.ReqDelays = rd(3 + rng.IntN(6))
	sc.ArrStep = time.Duration(3+rng.IntN(8)) * time.Millisecond
	sc.ProbeIv = time.Duration(5+rng.IntN(20)) * time.Millisecond
	sc.TLSSub = rng.IntN(5) == 0
	sc.ShortTT = sc.Slow > 0 && rng.IntN(3) == 0
	if sc.ShortTT {
		sc.SlowLat += 600 * time.Millisecond // still in flight well after the drain has begun
	}
	return sc
}

func TestC02(t *testing.T) {
	run := NewRun(t, "C02")
	defer run.Finish()
	n := run.N(40, 1600)
	for i := 0; i < n; i++ {
		rng := run.Rand(i)
		sc := c02Gen(rng, i, run.Thorough())
		if !run.Mine(i, sc) {
			continue
		}
		synctest.Test(t, func(t *testing.T) { c02Run(t, run, sc) })
	}
	for k := 0; k < run.N(4, 80); k++ {
		desc := map[string]any{"kind": "slow-first-probes", "idx": k}
		if !run.Mine(n+6000+k, desc) {
			continue
		}
		synctest.Test(t, func(t *testing.T) { c02SlowFirstProbes(t, run, k, desc) })
	}
	for k := 0; k < run.N(1, 4); k++ { // the thorough tier repeats it: its reach is a matter of volume
		if desc := map[string]any{"kind": "redeploys-under-load", "round": k}; run.Mine(n+5000+k, desc) {
			c02Load(t, run, desc)
		}
	}
	// redeploys that overlap (the later-issued one completes first): the replaced targets are taken
	// away the moment each deploy returns, and still no client sees an error
	for k := 0; k < run.N(8, 200); k++ {
		desc := map[string]any{"idx": k, "kind": "overlapping-deploys"}
		if !run.Mine(n+k, desc) {
			continue
		}
		synctest.Test(t, func(t *testing.T) { overlapDeploys(t, run, k, run.Rand(n+k)) })
	}
}

// c02SlowFirstProbes: the new targets are healthy and answer every request, but their first one to
// three health probes are answered only after the health-check timeout (a container still warming
// up); later probes are answered at once. Requests keep arriving every 20ms from before the
// redeploy until well after it: each is answered by a target.
func c02SlowFirstProbes(t *testing.T, run *Run, idx int, desc any) {
	w := NewWorld(t, WorldOpt{})
	defer w.Close()
	run.Eval()
	to := DefTO
	to.HealthCheckConfig.Interval = 200 * time.Millisecond
	to.HealthCheckConfig.Timeout = 1100 * time.Millisecond // not a multiple of the interval: no timeout shares its instant with a tick
	nslow := 1 + idx%3
	w.AddTarget("sfp-old:80", nil)
	var names []string
	for i := 0; i < 1+idx%2; i++ {
		name := fmt.Sprintf("sfp%d-new%d:80", idx%5, i)
		names = append(names, name)
		w.AddTarget(name, func(n int, at time.Duration) ProbeAct {
			if n < nslow {
				return ProbeAct{Status: 200, Delay: 1500*time.Millisecond + OffTarget}
			}
			return ProbeAct{Status: 200}
		})
	}
	if c := w.Deploy("svc", []string{"sfp-old:80"}, DefSO, to, 5*time.Second, time.Second); c.Err != "" {
		run.Inconclusive("setup failed: %s", c.Err)
		return
	}
	t0 := w.Now() + time.Second
	var dep *CmdRec
	w.At(t0, func() { dep = w.Deploy("svc", names, DefSO, to, 20*time.Second, time.Second) })
	for k := 0; k < 500; k++ {
		w.GoReq(t0-200*time.Millisecond+time.Duration(k)*20*time.Millisecond+OffArrival, Req{ID: fmt.Sprintf("p%d", k), Host: "c02.example", Path: "/x"})
	}
	w.Wait()
	if dep == nil || dep.Err != "" || dep.Panic != "" {
		run.Inconclusive("the redeploy did not succeed: %+v", dep)
		return
	}
	for _, r := range w.RespLog() {
		if r.Status != 200 || r.Target == "" {
			run.Violate(fmt.Sprintf("error-status:slow-first-probes:%d", r.Status), fmt.Sprintf("request %s sent at %v got status=%d target=%q err=%q; the service was redeployed at %v (returned %v) onto healthy targets whose first %d probes were answered only after the health-check timeout", r.ID, r.Sent, r.Status, r.Target, r.Err, dep.Issue, dep.Ret, nslow), desc, func() []string { return w.Trace(120) })
			return
		}
	}
	if os.Getenv("VERIF_DEBUG_SFP") != "" {
		for _, n := range names {
			for _, p := range w.Target(n).ProbeLog() {
				if p.Start < t0+3*time.Second {
					fmt.Fprintf(os.Stderr, "SFP %s probe n=%d start=%v end=%v ended=%v status=%d accepted=%v\n", n, p.N, p.Start, p.End, p.Ended, p.Status, p.Accepted)
				}
			}
		}
		fmt.Fprintf(os.Stderr, "SFP deploy issue=%v ret=%v\n", dep.Issue, dep.Ret)
	}
	run.Class(fmt.Sprintf("slow-first-probes|%d|targets=%d", nslow, len(names)))
}

// c02Load: the same property under real concurrency (real time, no sockets on the client side): a
// service is redeployed back and forth between two healthy targets a few hundred times while
// sixteen clients call the router without rest. Interleavings inside the few instructions between
// "which target" and "request registered with it" cannot be placed by any hook; they are reached by
// volume. Every response is a 200 from one of the two targets.
func c02Load(t *testing.T, run *Run, desc any) {
	run.Eval()
	RestoreHTTPDefaults()
	dir, err := os.MkdirTemp("", "vh-c02-")
	if err != nil {
		run.Inconclusive("tempdir: %v", err)
		return
	}
	defer os.RemoveAll(dir)
	mk := func(name string) *httptest.Server {
		return httptest.NewServer(http.HandlerFunc(func(w http.ResponseWriter, r *http.Request) { w.Write([]byte(name)) }))
	}
	a, b := mk("A"), mk("B")
	defer a.Close()
	defer b.Close()
	router := server.NewRouter(filepath.Join(dir, "state.json"))
	to := server.TargetOptions{HealthCheckConfig: server.HealthCheckConfig{Path: "/up", Interval: time.Second, Timeout: 5 * time.Second}, ResponseTimeout: 10 * time.Second}
	addr := func(s *httptest.Server) string { return strings.TrimPrefix(s.URL, "http://") }
	if err := router.DeployService("svc", []string{addr(a)}, server.ServiceOptions{}, to, 10*time.Second, 5*time.Second); err != nil {
		run.Inconclusive("deploy: %v", err)
		return
	}
	var stop atomic.Bool
	var total, bad atomic.Int64
	var firstBad atomic.Value
	var wg sync.WaitGroup
	for c := 0; c < 16; c++ {
		wg.Add(1)
		go func() {
			defer wg.Done()
			for !stop.Load() {
				rec := httptest.NewRecorder()
				router.ServeHTTP(rec, httptest.NewRequest("GET", "http://load.example/", nil))
				total.Add(1)
				if body := rec.Body.String(); rec.Code != 200 || (body != "A" && body != "B") {
					bad.Add(1)
					firstBad.CompareAndSwap(nil, fmt.Sprintf("status %d body %q", rec.Code, trunc(body, 60)))
				}
			}
		}()
	}
	// twenty bystander services (a snapshot has something to list) and two more services that their own
	// operators redeploy at the same time: commands overlap, as they do when several apps share a proxy
	for i := 0; i < 20; i++ {
		name := fmt.Sprintf("idle%d", i)
		if err := router.DeployService(name, []string{addr(a)}, server.ServiceOptions{Hosts: []string{name + ".example"}}, to, 10*time.Second, 5*time.Second); err != nil {
			stop.Store(true)
			wg.Wait()
			run.Inconclusive("deploy of a bystander failed: %v", err)
			return
		}
	}
	var redeploysN, opErrs atomic.Int64
	var firstErr atomic.Value
	deadline := time.Now().Add(8 * time.Second)
	opsDone := make(chan struct{})
	var ops sync.WaitGroup
	for o, name := range []string{"svc", "svc2", "svc3"} {
		ops.Add(1)
		go func() {
			defer ops.Done()
			so := server.ServiceOptions{}
			if o > 0 {
				so.Hosts = []string{name + ".example"}
			}
			for i := 0; i < 500 && time.Now().Before(deadline); i++ {
				next := addr(b)
				if i%2 == 1 {
					next = addr(a)
				}
				if err := router.DeployService(name, []string{next}, so, to, 10*time.Second, 5*time.Second); err != nil {
					opErrs.Add(1)
					firstErr.CompareAndSwap(nil, fmt.Sprintf("redeploy %d of %s: %v", i, name, err))
					return
				}
				if o == 0 {
					redeploysN.Add(1)
				}
			}
		}()
	}
	go func() { ops.Wait(); close(opsDone) }()
	select {
	case <-opsDone:
	case <-time.After(2 * time.Minute):
		// fifteen times what the operators need: they are stuck. Two goroutine dumps decide what this is
		d1 := allStacks()
		time.Sleep(5 * time.Second)
		d2 := allStacks()
		verdict, what := classifyStall(d1, d2)
		stop.Store(true)
		if verdict == "deadlock" || verdict == "spinning" {
			run.Violate("never-answered:under-load:"+verdict, fmt.Sprintf("three services were being redeployed concurrently while 16 clients called the first one; after %d redeploys and %d answered requests nothing moved any more for two minutes: the proxy is %s (%s) - requests in flight are never answered", redeploysN.Load(), total.Load(), verdict, what), desc, strings.Split(trunc(d2, 40000), "\n"))
		} else {
			run.Inconclusive("load scenario stuck for two minutes without a deadlock or a busy loop in the proxy's goroutines (%s)", what)
		}
		return
	}
	if opErrs.Load() > 0 {
		stop.Store(true)
		wg.Wait()
		run.Inconclusive("%v", firstErr.Load())
		return
	}
	redeploys := int(redeploysN.Load())
	stop.Store(true)
	wg.Wait()
	router.RemoveService("svc")
	run.Count("load_redeploys", redeploys)
	run.Count("load_requests", int(total.Load()))
	if n := bad.Load(); n > 0 {
		run.Violate("error-status:under-load", fmt.Sprintf("%d of %d requests sent while the service was redeployed %d times between two healthy targets were not answered by a target; first: %v", n, total.Load(), redeploys, firstBad.Load()), desc, nil)
		return
	}
	if redeploys < 20 || total.Load() < 2000 {
		run.Inconclusive("load scenario too small to mean anything: %d redeploys, %d requests", redeploys, total.Load())
		return
	}
	run.Class("load|redeploys")
}

func c02Run(t *testing.T, run *Run, sc c02Scenario) {
	w := NewWorld(t, WorldOpt{TLSListener: sc.TLSSub})
	defer w.Close()
	so := DefSO
	if sc.TLSSub {
		fix := Fixtures()
		w.AddTarget("root-t0:80", nil)
		rootSO := server.ServiceOptions{Hosts: []string{"c02.example"}, TLSEnabled: true, TLSRedirect: true, TLSCertificatePath: fix + "/cert.pem", TLSPrivateKeyPath: fix + "/key.pem"}
		if c := w.Deploy("root", []string{"root-t0:80"}, rootSO, DefTO, 5*time.Second, time.Second); c.Err != "" {
			run.Inconclusive("setup deploy of the TLS root service failed: %s", c.Err)
			return
		}
		so = server.ServiceOptions{TLSRedirect: true, Hosts: []string{"c02.example"}, PathPrefixes: []string{"/x", "/z", "/slow"}}
	}
	to := DefTO
	to.HealthCheckConfig.Interval = sc.ProbeIv
	to.HealthCheckConfig.Timeout = 5 * time.Second
	if sc.ShortTT {
		to.ResponseTimeout = sc.SlowLat / 4
	}
	const svc = "svc"
	drainTO := 5 * time.Second
	deployTO := 5 * time.Second
	if sc.ShortTT {
		deployTO = 250 * time.Millisecond
	}
	gen := func(g, n int, tag string) []string {
		var out []string
		for i := 0; i < n; i++ {
			name := fmt.Sprintf("%s%d-t%d:80", tag, g, i)
			w.AddTarget(name, nil)
			out = append(out, name)
		}
		return out
	}
	cookie := ""
	active0 := gen(0, sc.NOld, "g")
	if c := w.Deploy(svc, active0, so, to, 5*time.Second, drainTO); c.Err != "" {
		run.Inconclusive("setup deploy failed: %s", c.Err)
		return
	}
	gens := [][]string{active0}
	if sc.Slot == "rollout" {
		cookie = "kamal-rollout=u1"
		r0 := gen(0, sc.NOld, "r")
		if c := w.RolloutDeploy(svc, r0, 5*time.Second, drainTO); c.Err != "" {
			run.Inconclusive("setup rollout deploy failed: %s", c.Err)
			return
		}
		w.RolloutSet(svc, 100, nil)
		gens = [][]string{r0}
	}
	for i, p := range c02Points {
		if sc.Delays[i] > 0 {
			w.SetPointDelay(p, sc.Delays[i])
		}
	}
	// Window of one deploy: sum of delays (+ slow latency) plus margins.
	var span time.Duration
	for _, d := range sc.Delays {
		span += d * time.Duration(max(sc.NOld, sc.NNew)) // per-target hooks may serialise
	}
	span += sc.SlowLat + 4*c02Delta
	type meta struct {
		arr, d1, d2 time.Duration
		dep         int
		slow        bool
		stalled     bool
	}
	metas := map[string]meta{}
	var cmds []*CmdRec
	base := 100 * time.Millisecond
	nreq := 0
	// Requests stalled across successive redeploys: they resolve the service before redeploy i
	// starts and reach the claim step only somewhere inside (or just after) redeploy j > i.
	step := 3*span + 200*time.Millisecond
	for i := 1; i < sc.Redeploys; i++ {
		for j := i + 1; j <= sc.Redeploys; j++ {
			bi, bj := base+time.Duration(i-1)*step, base+time.Duration(j-1)*step
			for k := 0; k <= 8; k++ {
				id := fmt.Sprintf("z%d-%d-%d", i, j, k)
				arr := bi - 2*c02Delta + OffArrival
				d1 := bj - arr + time.Duration(k)*span/6
				metas[id] = meta{arr: arr - bj, d1: d1, dep: j, stalled: true}
				w.SetReqDelay(id, "route.resolved", d1)
				r := Req{ID: id, Host: "c02.example", Path: "/z", TLS: sc.TLSSub, SNI: "c02.example"}
				if cookie != "" {
					r.Hdr = [][2]string{{"Cookie", cookie}}
				}
				w.GoReq(arr, r)
			}
		}
	}
	for dep := 1; dep <= sc.Redeploys; dep++ {
		tag := "g"
		if sc.Slot == "rollout" {
			tag = "r"
		}
		newT := gen(dep, sc.NNew, tag)
		gens = append(gens, newT)
		t0 := base
		// slow background requests already in flight when the deploy starts
		for s := 0; s < sc.Slow; s++ {
			id := fmt.Sprintf("s%d-%d", dep, s)
			metas[id] = meta{dep: dep, slow: true}
			r := Req{ID: id, Host: "c02.example", Path: "/slow", Lat: sc.SlowLat, TLS: sc.TLSSub, SNI: "c02.example"}
			if s%2 == 1 || sc.ShortTT {
				// a streamed (chunked, no Content-Length) response whose second half is still to come
				r = Req{ID: id, Host: "c02.example", Path: "/slow", Mode: "stream", Gap: sc.SlowLat, TLS: sc.TLSSub, SNI: "c02.example"}
			}
			if cookie != "" {
				r.Hdr = [][2]string{{"Cookie", cookie}}
			}
			w.GoReq(t0-time.Duration(5+s)*time.Millisecond+OffArrival, r)
		}
		for arr := -2 * c02Delta; arr <= span; arr += sc.ArrStep {
			for _, d1 := range sc.ReqDelays {
				for _, d2 := range sc.ReqDelays {
					if d1+d2 > span+2*c02Delta {
						continue
					}
					nreq++
					id := fmt.Sprintf("q%d-%d", dep, nreq)
					metas[id] = meta{arr: arr, d1: d1, d2: d2, dep: dep}
					if d1 > 0 {
						w.SetReqDelay(id, "route.resolved", d1)
					}
					if d2 > 0 {
						w.SetReqDelay(id, "service.gate.passed", d2)
					}
					r := Req{ID: id, Host: "c02.example", Path: "/x", TLS: sc.TLSSub, SNI: "c02.example"}
					if cookie != "" {
						r.Hdr = [][2]string{{"Cookie", cookie}}
					}
					w.GoReq(t0+arr+OffArrival, r)
				}
			}
		}
		w.At(t0, func() {
			var c *CmdRec
			if sc.Slot == "rollout" {
				c = w.RolloutDeploy(svc, newT, deployTO, drainTO)
			} else {
				c = w.Deploy(svc, newT, so, to, deployTO, drainTO)
			}
			w.mu.Lock()
			cmds = append(cmds, c)
			w.mu.Unlock()
		})
		base += 3*span + 200*time.Millisecond
	}
	w.Wait()

	// ---------- oracle ----------
	run.Eval()
	fail := func(sig, format string, a ...any) {
		run.Violate(sig, fmt.Sprintf(format, a...), sc, func() []string { return w.Trace(300) })
	}
	sort.Slice(cmds, func(i, j int) bool { return cmds[i].Issue < cmds[j].Issue })
	for _, c := range cmds {
		if c.Panic != "" {
			fail("panic", "deploy panicked: %s", c.Panic)
			return
		}
		if c.Err != "" {
			fail("deploy-failed", "redeploy to healthy targets failed: %s", c.Err)
			return
		}
	}
	if len(cmds) != sc.Redeploys {
		run.Inconclusive("only %d of %d deploys completed", len(cmds), sc.Redeploys)
		return
	}
	// event times per deploy for signatures
	evTimes := func(dep int) []time.Duration {
		c := cmds[dep-1]
		var out []time.Duration
		for _, p := range c02Points {
			var first, last time.Duration = -1, -1
			for _, h := range w.Hooks {
				if h.Point != p || h.At < c.Issue || h.At > c.Ret {
					continue
				}
				if strings.HasPrefix(p, "target.health.") && !contains(gens[dep], h.Name) {
					continue
				}
				if first < 0 {
					first = h.At
				}
				last = h.At
			}
			if p == "target.drain.end" {
				first = last
			}
			out = append(out, first)
		}
		return out
	}
	evs := map[int][]time.Duration{}
	for dep := 1; dep <= sc.Redeploys; dep++ {
		evs[dep] = evTimes(dep)
	}
	pos := func(dep int, at time.Duration) int {
		n := 0
		for _, e := range evs[dep] {
			if e >= 0 && e <= at {
				n++
			}
		}
		return n
	}
	resps := w.RespLog()
	run.Count("client_requests", len(resps))
	reqHooks := map[string]map[string]time.Duration{}
	for _, h := range w.Hooks {
		if h.Req != "" {
			if reqHooks[h.Req] == nil {
				reqHooks[h.Req] = map[string]time.Duration{}
			}
			if _, dup := reqHooks[h.Req][h.Point]; !dup {
				reqHooks[h.Req][h.Point] = h.At
			}
		}
	}
	nviol := 0
	for _, r := range resps {
		if nviol > 12 {
			break
		}
		m := metas[r.ID]
		c := cmds[m.dep-1]
		// A generation is live from the issue of the deploy that introduced it until the return of
		// the deploy that replaced it; a request may be answered by any generation that is live at
		// some instant between its claim and its completion.
		tClaim := r.Sent
		if tc, ok := reqHooks[r.ID]["lb.claimed"]; ok {
			tClaim = tc
		}
		allowed := map[string]bool{}
		for k := range gens {
			from, until := time.Duration(0), time.Duration(1<<62)
			if k >= 1 {
				from = cmds[k-1].Issue
			}
			if k < len(cmds) {
				until = cmds[k].Ret
			}
			if from <= r.Done && until >= tClaim {
				for _, tname := range gens[k] {
					allowed[tname] = true
				}
			}
		}
		var sig string
		if !m.slow {
			tr, ok1 := reqHooks[r.ID]["route.resolved"]
			tg, ok2 := reqHooks[r.ID]["service.gate.passed"]
			tc, ok3 := reqHooks[r.ID]["lb.claimed"]
			if ok1 && ok2 && ok3 {
				a, b, cc := pos(m.dep, tr), pos(m.dep, tg), pos(m.dep, tc)
				if a != 0 || cc != len(c02Points) {
					run.Class(fmt.Sprintf("%s:tls=%v:%d-%d-%d", sc.Slot, sc.TLSSub, a, b, cc))
				}
				sig = fmt.Sprintf("resolved@%d,gate@%d,claim@%d", a, b, cc)
			}
		}
		wantBody := r.Target
		if m.slow && string(r.Body) != r.Target {
			wantBody = "part1part2" // streamed variant
		}
		good := r.Status == 200 && allowed[r.Target] && string(r.Body) == wantBody && r.Err == ""
		if !good {
			nviol++
			kind := "error-status"
			if r.Status == 200 {
				kind = "wrong-target"
			}
			if m.stalled {
				kind += ":stalled-across-redeploys"
			}
			if r.Status < 0 {
				kind = "no-response"
			}
			fail(fmt.Sprintf("%s:%d:%s:%s", kind, r.Status, sc.Slot, sig),
				"request %s (arrival %+v after deploy issue, delays %v/%v, deploy window %v..%v) got status=%d target=%q err=%q; steps: %s; deploy events %v",
				r.ID, m.arr, m.d1, m.d2, c.Issue, c.Ret, r.Status, r.Target, r.Err, sig, evs[m.dep])
		}
	}
	run.Sample(map[string]any{"scenario": sc, "requests": len(resps), "deploy_windows": fmt.Sprint(func() (o []string) {
		for _, c := range cmds {
			o = append(o, fmt.Sprintf("%v..%v", c.Issue, c.Ret))
		}
		return
	}())})
}

func contains(xs []string, x string) bool {
	for _, y := range xs {
		if y == x {
			return true
		}
	}
	return false
}
