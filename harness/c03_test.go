package verifharness

// C03 When deploy, pause or stop returns, the drained targets are quiescent.

import (
	"fmt"
	"math/rand/v2"
	"sort"
	"strings"
	"testing"
	"testing/synctest"
	"time"
)

type c03Inflight struct {
	Kind string        `json:"kind"`               // early | late | never | edge- | edge+ | edge0 | upgrade
	Fin  time.Duration `json:"finish_after_drain"` // natural finish, relative to the drain start
}

type c03Scenario struct {
	Idx      int             `json:"idx"`
	Cmd      string          `json:"cmd"` // deploy | pause | stop | rollout-deploy
	NT       int             `json:"n_targets"`
	Rollout  bool            `json:"has_rollout"` // service also has rollout targets (pause/stop drain both)
	DrainTO  time.Duration   `json:"drain_timeout"`
	Inflight []c03Inflight   `json:"inflight"`
	Sick     bool            `json:"sick"`   // the drained targets turned unhealthy (out of rotation) while serving their in-flight requests
	Placed   bool            `json:"placed"` // hook-placed late arrivals instead of exact-time clauses
	CmdDelay time.Duration   `json:"cmd_hook_delay"`
	ReqDs    []time.Duration `json:"req_delays"`
	ProbeIv  time.Duration   `json:"probe_interval"`
	Buf      string          `json:"buffering"` // "" | req | resp | both: the service buffers requests and/or responses
	// ShortTT: the target timeout (time allowed for the response *headers*) is a fifth of the drain
	// timeout, and every in-flight request has its headers already and streams its body until its
	// natural finish: the drain timeout, not the target timeout, is what such a request is owed.
	ShortTT bool `json:"short_target_timeout"`
	// RolloutStopped (pause/stop of a service with rollout targets): `rollout stop` is issued a
	// millisecond before the command, while requests are in flight on the rollout targets: they are
	// still the service's targets and the command drains them like the others.
	RolloutStopped bool `json:"rollout_stopped_first,omitempty"`
}

func c03Gen(rng *rand.Rand, idx int) c03Scenario {
	sc := c03Scenario{Idx: idx, Cmd: pick(rng, []string{"deploy", "pause", "stop", "pause", "deploy", "rollout-deploy"}), NT: 1 + rng.IntN(3), ProbeIv: time.Second}
	sc.DrainTO = pick(rng, []time.Duration{0, time.Millisecond, 1500 * time.Millisecond, 1500 * time.Millisecond, 30 * time.Second})
	sc.Rollout = sc.Cmd == "rollout-deploy" || rng.IntN(4) == 0
	sc.Buf = pick(rng, []string{"", "", "", "req", "resp", "both"})
	if rng.IntN(3) == 0 {
		sc.Placed = true
		sc.DrainTO = pick(rng, []time.Duration{1500 * time.Millisecond, 30 * time.Second})
		sc.CmdDelay = 10*time.Millisecond + OffHook
		for i := 0; i < 3+rng.IntN(5); i++ {
			sc.ReqDs = append(sc.ReqDs, time.Duration(i)*sc.CmdDelay)
		}
		sc.ProbeIv = time.Duration(5+rng.IntN(30)) * time.Millisecond
		if rng.IntN(2) == 0 { // a slow in-flight request keeps the drain open for a while
			sc.Inflight = append(sc.Inflight, c03Inflight{"early", time.Duration(30+rng.IntN(60))*time.Millisecond + OffTarget})
		}
		return sc
	}
	sc.Sick = rng.IntN(5) == 0
	if sc.Sick {
		sc.ProbeIv = 300 * time.Millisecond
	}
	if !sc.Sick && idx%5 == 3 {
		sc.ShortTT = true
		if sc.DrainTO < time.Second {
			sc.DrainTO = 1500 * time.Millisecond
		}
	}
	sc.RolloutStopped = sc.Rollout && (sc.Cmd == "pause" || sc.Cmd == "stop") && idx%2 == 1
	n := rng.IntN(7)
	if sc.RolloutStopped && n < 2 {
		n = 2
	}
	if sc.ShortTT {
		n = 2 + n%4
	}
	for i := 0; i < n; i++ {
		k := pick(rng, []string{"early", "early", "early-stream", "early-refused", "late", "never", "edge-", "edge+", "edge0", "upgrade"})
		if sc.ShortTT && k != "upgrade" {
			k = "early-stream"
		}
		f := c03Inflight{Kind: k}
		d := sc.DrainTO
		switch k {
		case "early", "early-stream", "early-refused":
			if d < 4*Eps {
				f.Kind, f.Fin = "late", d+time.Duration(300+rng.IntN(1000))*time.Millisecond+OffTarget
			} else {
				f.Fin = time.Duration(rng.Int64N(int64(d-3*Eps))) + OffTarget
			}
		case "late":
			f.Fin = d + 3*Eps + time.Duration(rng.IntN(2000))*time.Millisecond + OffTarget
		case "edge-":
			f.Fin = d - Step + OffTarget
		case "edge+":
			f.Fin = d + Step + OffTarget
		case "edge0":
			f.Fin = d
		}
		sc.Inflight = append(sc.Inflight, f)
	}
	return sc
}

func (sc c03Scenario) class() string {
	var ks []string
	for _, f := range sc.Inflight {
		ks = append(ks, f.Kind)
	}
	sort.Strings(ks)
	if len(ks) == 0 && !sc.Placed {
		return ""
	}
	return fmt.Sprintf("%s|nt%d|ro%v|drain%v|%s|placed=%v|sick=%v|buf=%s|stt=%v|rs=%v", sc.Cmd, sc.NT, sc.Rollout, sc.DrainTO, strings.Join(ks, ","), sc.Placed, sc.Sick, sc.Buf, sc.ShortTT, sc.RolloutStopped)
}

// c03Span: requests held by a pause (and requests stalled between route lookup and claim) while
// one to three redeploys replace the targets; after each deploy returned nothing may reach the
// targets it replaced, in particular not the held requests once they are released.
func c03Span(t *testing.T, run *Run, idx int, rng *rand.Rand) {
	w := NewWorld(t, WorldOpt{})
	defer w.Close()
	run.Eval()
	const svc = "svc"
	nDeploys := 1 + rng.IntN(3)
	nt := 1 + rng.IntN(2)
	desc := map[string]any{"idx": idx, "kind": "pause-span", "deploys": nDeploys, "targets": nt}
	fail := func(sig, format string, a ...any) {
		run.Violate(sig, fmt.Sprintf(format, a...), desc, func() []string { return w.Trace(200) })
	}
	mk := func(g int) []string {
		var out []string
		for i := 0; i < nt; i++ {
			name := fmt.Sprintf("g%d-t%d:80", g, i)
			w.AddTarget(name, nil)
			out = append(out, name)
		}
		return out
	}
	if c := w.Deploy(svc, mk(0), DefSO, DefTO, 5*time.Second, time.Second); c.Err != "" {
		run.Inconclusive("setup: %s", c.Err)
		return
	}
	usePause := rng.IntN(3) != 0
	if usePause {
		w.At(900*time.Millisecond, func() { w.Pause(svc, time.Second, 100*time.Second) })
	}
	// held (or stalled) requests arrive before the first redeploy
	for i := 0; i < 4; i++ {
		id := fmt.Sprintf("h%d", i)
		if !usePause {
			// stalled between route lookup and claim until after the last redeploy
			w.SetReqDelay(id, "route.resolved", time.Duration(nDeploys)*time.Second+time.Duration(200+100*i)*time.Millisecond)
		}
		w.GoReq(950*time.Millisecond+time.Duration(i)*Step+OffArrival, Req{ID: id, Host: "c03.example", Path: "/held"})
	}
	rets := make([]time.Duration, nDeploys+1)
	for d := 1; d <= nDeploys; d++ {
		d := d
		w.At(time.Duration(d)*time.Second, func() {
			c := w.Deploy(svc, mk(d), DefSO, DefTO, 5*time.Second, 500*time.Millisecond)
			if c.Err != "" {
				fail("command-failed", "redeploy %d failed: %s", d, c.Err)
			}
			rets[d] = c.Ret
		})
	}
	tResume := time.Duration(nDeploys+1)*time.Second + 500*time.Millisecond
	if usePause {
		w.At(tResume, func() { w.Resume(svc) })
	}
	w.GoReq(tResume+time.Second+OffArrival, Req{ID: "late", Host: "c03.example", Path: "/late"})
	w.Wait()
	for g := 0; g < nDeploys; g++ {
		for i := 0; i < nt; i++ {
			name := fmt.Sprintf("g%d-t%d:80", g, i)
			for _, q := range w.Target(name).ReqLog() {
				if rets[g+1] > 0 && q.Recv > rets[g+1] {
					fail("sent-after-return:deploy:held-across-redeploys", "request %s reached replaced target %s at %v; the deploy that replaced it had returned at %v (%d redeploys, pause=%v)", q.ID, name, q.Recv, rets[g+1], nDeploys, usePause)
					return
				}
			}
		}
	}
	for _, r := range w.RespLog() {
		if r.Status != 200 || !strings.HasPrefix(r.Target, fmt.Sprintf("g%d-", nDeploys)) && (r.ID == "late" || usePause) {
			fail("held-request-outcome", "request %s: status=%d target=%q (final generation g%d, pause=%v)", r.ID, r.Status, r.Target, nDeploys, usePause)
			return
		}
	}
	run.Class(fmt.Sprintf("span|deploys=%d|nt=%d|pause=%v", nDeploys, nt, usePause))
}

func TestC03(t *testing.T) {
	run := NewRun(t, "C03")
	defer run.Finish()
	n := run.N(400, 24000)
	for i := 0; i < n; i++ {
		sc := c03Gen(run.Rand(i), i)
		if i%8 == 7 {
			if run.Mine(i, map[string]any{"idx": i, "kind": "pause-span"}) {
				synctest.Test(t, func(t *testing.T) { c03Span(t, run, i, run.Rand(i)) })
			}
			continue
		}
		if !run.Mine(i, sc) {
			continue
		}
		synctest.Test(t, func(t *testing.T) { c03Run(t, run, sc) })
	}
	for k := 0; k < run.N(8, 200); k++ {
		desc := map[string]any{"idx": k, "kind": "overlapping-deploys"}
		if !run.Mine(n+5000+k, desc) {
			continue
		}
		synctest.Test(t, func(t *testing.T) { overlapDeploys(t, run, k, run.Rand(n+5000+k)) })
	}
	for k := 0; k < run.N(24, 800); k++ {
		desc := map[string]any{"idx": k, "kind": "two-commands-around-one-request"}
		if !run.Mine(n+k, desc) {
			continue
		}
		synctest.Test(t, func(t *testing.T) { c03Double(t, run, k, run.Rand(n+k)) })
	}
}

// overlapDeploys (used by C02, C03 and C17): two deploys of one service overlap. B is issued first and
// waits 1.5s for its target; A is issued, becomes healthy and installs at once; a slow request (and
// sometimes a WebSocket) is then in flight on A's target; B's target turns healthy and B replaces
// A's target. B has to drain what it replaced: when B returns nothing is being served by A's target
// (C03), so A's target can be taken away at that moment - which the scenario does - without any
// client seeing an error (C02); and after a final remove nothing is probed any more (C17).
func overlapDeploys(t *testing.T, run *Run, idx int, rng *rand.Rand) {
	w := NewWorld(t, WorldOpt{})
	defer w.Close()
	run.Eval()
	const svc = "svc"
	fail := func(sig, format string, a ...any) {
		run.Violate(sig, fmt.Sprintf(format, a...), map[string]any{"idx": idx, "kind": "overlapping-deploys"}, func() []string { return w.Trace(200) })
	}
	w.AddTarget("v0:80", nil)
	w.AddTarget("va:80", nil)
	w.AddTarget("vb:80", func(n int, at time.Duration) ProbeAct {
		if n == 0 {
			return ProbeAct{Status: 200, Delay: 1500 * time.Millisecond}
		}
		return ProbeAct{Status: 200}
	})
	if c := w.Deploy(svc, []string{"v0:80"}, DefSO, DefTO, 5*time.Second, 5*time.Second); c.Err != "" {
		run.Inconclusive("setup: %s", c.Err)
		return
	}
	T := 2 * time.Second
	lat := time.Duration(1500+rng.IntN(1500)) * time.Millisecond
	ws := rng.IntN(2) == 0
	var recA, recB, recRm *CmdRec
	w.At(T, func() {
		recB = w.Deploy(svc, []string{"vb:80"}, DefSO, DefTO, 5*time.Second, 5*time.Second)
		if recB.Err == "" {
			w.Target("va:80").Kill() // the replaced container is removed the moment deploy returns
			w.Target("v0:80").Kill()
		}
	})
	w.At(T+300*time.Millisecond, func() { recA = w.Deploy(svc, []string{"va:80"}, DefSO, DefTO, 5*time.Second, 5*time.Second) })
	w.GoReq(T+600*time.Millisecond+OffArrival, Req{ID: "slow", Host: "ov.example", Path: "/slow", Lat: lat + OffTarget})
	if ws {
		w.GoReq(T+700*time.Millisecond+OffArrival, Req{ID: "ws", Host: "ov.example", Path: "/ws", Mode: "upgrade", AbortAfter: 20 * time.Second})
	}
	for k := 0; k < 8; k++ {
		w.GoReq(T+time.Duration(k)*500*time.Millisecond+OffArrival, Req{ID: fmt.Sprintf("q%d", k), Host: "ov.example", Path: "/q"})
	}
	w.At(T+12*time.Second, func() { recRm = w.Remove(svc) })
	w.Wait()
	time.Sleep(8 * time.Second)
	if recA == nil || recB == nil || recRm == nil || recA.Err != "" || recB.Err != "" || recA.Panic != "" || recB.Panic != "" {
		run.Count("overlapping_deploys_did_not_both_succeed", 1)
		return
	}
	if !(recA.Ret < recB.Ret && recB.Issue < recA.Issue) {
		run.Count("overlapping_deploys_not_in_the_intended_order", 1)
		return
	}
	// C03: quiescent when B returns
	for _, q := range w.Target("va:80").ReqLog() {
		if q.Recv <= recB.Ret && (q.Outcome == "open" || q.End > recB.Ret+Eps) {
			fail("open-at-return:deploy:overlapping-deploys", "deploy B (issued %v) replaced the target deploy A had installed at %v; B returned at %v while request %s was still being served by that target (received %v, ended %v %s)", recB.Issue, recA.Ret, recB.Ret, q.ID, q.Recv, q.End, q.Outcome)
			return
		}
		if q.Recv > recB.Ret {
			fail("sent-after-return:deploy:overlapping-deploys", "request %s reached the target replaced by deploy B at %v, after B had returned at %v", q.ID, q.Recv, recB.Ret)
			return
		}
	}
	// C02: nobody saw an error
	for _, r := range w.RespLog() {
		if r.ID == "ws" {
			continue
		}
		if r.Status != 200 || r.Target == "" {
			fail("error-status:overlapping-deploys", "request %s (sent %v) got status=%d target=%q err=%q while two deploys overlapped (A returned %v, B returned %v, replaced targets removed then)", r.ID, r.Sent, r.Status, r.Target, r.Err, recA.Ret, recB.Ret)
			return
		}
	}
	// C17: nothing is probed after the remove
	for _, name := range []string{"v0:80", "va:80", "vb:80"} {
		for _, p := range w.Target(name).ProbeLog() {
			if p.Start > recRm.Ret+Eps {
				fail("probe-after-everything-removed:overlapping-deploys", "the service was removed at %v, yet %s was probed at %v", recRm.Ret, name, p.Start)
				return
			}
		}
	}
	run.Class(fmt.Sprintf("overlapping-deploys|ws=%v", ws))
}

// c03Double: one request straddles two commands. It passes the gate of the running service and
// lingers before its claim; a pause takes effect meanwhile, so the claim is declined and the request
// goes back to the gate; resume lets it pass the gate a second time, it lingers again, and a second
// pause (or stop) completes before it claims. That second command has returned: nothing may reach
// the targets until the final resume.
func c03Double(t *testing.T, run *Run, idx int, rng *rand.Rand) {
	w := NewWorld(t, WorldOpt{})
	defer w.Close()
	run.Eval()
	const svc = "svc"
	nt := 1 + rng.IntN(2)
	var names []string
	for i := 0; i < nt; i++ {
		names = append(names, fmt.Sprintf("dbl%d-t%d:80", idx%5, i))
		w.AddTarget(names[i], nil)
	}
	if c := w.Deploy(svc, names, DefSO, DefTO, 5*time.Second, time.Second); c.Err != "" {
		run.Inconclusive("setup failed: %s", c.Err)
		return
	}
	second := pick(rng, []string{"pause", "stop"})
	linger := time.Duration(25+rng.IntN(15))*time.Millisecond + OffHook
	T := time.Second
	nreq := 2 + rng.IntN(5)
	for k := 0; k < nreq; k++ {
		id := fmt.Sprintf("d%d", k)
		w.SetReqDelay(id, "service.gate.passed", linger)
		w.GoReq(T+time.Duration(rng.IntN(8))*time.Millisecond+OffArrival, Req{ID: id, Host: "c03.example", Path: "/w"})
	}
	var first, again, final *CmdRec
	w.At(T+10*time.Millisecond, func() { first = w.Pause(svc, time.Second, 100*time.Second) })
	w.At(T+50*time.Millisecond, func() { w.Resume(svc) })
	w.At(T+60*time.Millisecond, func() {
		if second == "pause" {
			again = w.Pause(svc, time.Second, 100*time.Second)
		} else {
			again = w.Stop(svc, time.Second, "down")
		}
	})
	w.At(T+10*time.Second, func() { final = w.Resume(svc) })
	w.Wait()
	fail := func(sig, format string, a ...any) {
		run.Violate(sig, fmt.Sprintf(format, a...), map[string]any{"idx": idx, "second": second, "linger": linger, "requests": nreq}, func() []string { return w.Trace(200) })
	}
	if first == nil || again == nil || final == nil || first.Err != "" || again.Err != "" {
		run.Inconclusive("commands did not complete")
		return
	}
	// neither command has anything to wait for: no request is at a target when it is issued (they
	// linger before their claim or are parked at the gate), so both return at once
	for _, c := range []*CmdRec{first, again} {
		if d := c.Ret - c.Issue; d > Eps {
			fail("not-prompt:"+c.Name+":nothing-in-flight", "%s issued at %v took %v although no request was being served by a target (drain timeout 1s)", c.Name, c.Issue, d)
			return
		}
	}
	reached := 0
	for _, name := range names {
		for _, q := range w.Target(name).ReqLog() {
			if q.Recv > first.Ret && q.Recv < T+50*time.Millisecond {
				fail("sent-after-return:pause:first-pass", "request %s reached %s at %v, after the first pause had returned at %v", q.ID, name, q.Recv, first.Ret)
				return
			}
			if q.Recv > again.Ret && q.Recv < final.Issue {
				fail("sent-after-return:"+second+":second-pass", "request %s passed the gate twice (pause at %v, resume, %s returned at %v) and reached %s at %v, before the final resume at %v", q.ID, first.Issue, second, again.Ret, name, q.Recv, final.Issue)
				return
			}
			reached++
		}
	}
	passes := 0
	for _, h := range w.Hooks {
		if h.Point == "service.gate.passed" {
			passes++
		}
	}
	if passes < 2*nreq {
		run.Count("double_pass_not_reached", 1)
		return
	}
	run.Class(fmt.Sprintf("double|%s|nt%d|reqs%d", second, nt, nreq))
}

func c03Run(t *testing.T, run *Run, sc c03Scenario) {
	w := NewWorld(t, WorldOpt{})
	defer w.Close()
	to := DefTO
	to.HealthCheckConfig.Interval = sc.ProbeIv
	to.ResponseTimeout = 5 * time.Minute // the target timeout must not pre-empt the drain deadline
	if sc.ShortTT {
		to.ResponseTimeout = sc.DrainTO / 5
	}
	to.BufferRequests = sc.Buf == "req" || sc.Buf == "both"
	to.BufferResponses = sc.Buf == "resp" || sc.Buf == "both"
	const svc = "svc"
	mk := func(tag string, n int) []string {
		var out []string
		for i := 0; i < n; i++ {
			name := fmt.Sprintf("%s-t%d:80", tag, i)
			w.AddTarget(name, nil)
			out = append(out, name)
		}
		return out
	}
	sickProbe := func(n int, at time.Duration) ProbeAct {
		if n >= 1 {
			return ProbeAct{Status: 500}
		}
		return ProbeAct{Status: 200}
	}
	act0 := mk("a0", sc.NT)
	if c := w.Deploy(svc, act0, DefSO, to, 5*time.Second, time.Second); c.Err != "" {
		run.Inconclusive("setup failed: %s", c.Err)
		return
	}
	var ro0 []string
	if sc.Rollout {
		ro0 = mk("r0", sc.NT)
		if c := w.RolloutDeploy(svc, ro0, 5*time.Second, time.Second); c.Err != "" {
			run.Inconclusive("setup failed: %s", c.Err)
			return
		}
		w.RolloutSet(svc, 100, nil)
	}
	// which targets does the command drain, and which cookie reaches them
	drained := map[string]bool{}
	var next []string
	useCookie := false
	switch sc.Cmd {
	case "deploy":
		for _, n := range act0 {
			drained[n] = true
		}
		next = mk("a1", sc.NT)
	case "rollout-deploy":
		for _, n := range ro0 {
			drained[n] = true
		}
		next = mk("r1", sc.NT)
		useCookie = true
	default:
		for _, n := range append(append([]string{}, act0...), ro0...) {
			drained[n] = true
		}
	}
	tCmd := time.Second
	mkReq := func(id string, cookie bool) Req {
		r := Req{ID: id, Host: "c03.example", Path: "/w"}
		if cookie {
			r.Hdr = [][2]string{{"Cookie", "kamal-rollout=u1"}}
		}
		return r
	}
	// in-flight set: sent 20ms before the command so that each is open at its target when draining begins
	lead := 20 * time.Millisecond
	if sc.Sick {
		// the targets that will be drained fail every probe after the first (t >= 300ms): the
		// in-flight requests are sent before that and are still running when the command is issued
		lead = 900 * time.Millisecond
		for name := range drained {
			w.Target(name).Probe = sickProbe
		}
	}
	for i, f := range sc.Inflight {
		id := fmt.Sprintf("f%d", i)
		cookie := useCookie || (sc.Rollout && sc.Cmd != "deploy" && i%2 == 1)
		r := mkReq(id, cookie)
		switch f.Kind {
		case "never":
			r.Mode = "hang"
		case "upgrade":
			r.Mode = "upgrade"
		default:
			r.Lat = f.Fin + lead - OffArrival
			if r.Lat <= 0 {
				r.Lat = 1
			}
			if f.Kind == "early-refused" {
				// asks for a protocol upgrade; the target answers with an ordinary response (a refused
				// WebSocket handshake, an ignored h2c attempt): an ordinary in-flight request
				r.Mode = "upgrade-refused"
			}
			if f.Kind == "early-stream" {
				// first part of a chunked response relayed at once, the rest at the natural finish
				r.Mode, r.Gap, r.Lat = "stream", r.Lat, 0
			}
		}
		w.GoReq(tCmd-lead+OffArrival, r)
	}
	// late arrivals (placed) or plain probes of the state after the command
	type meta struct{ arr, d1, d2 time.Duration }
	metas := map[string]meta{}
	if sc.Placed {
		for _, p := range []string{"deploy.healthy", "deploy.lb.updated", "deploy.installed", "service.gate.set", "target.drain.begin", "target.drain.end", "deploy.drained"} {
			w.SetPointDelay(p, sc.CmdDelay)
		}
		k := 0
		for arr := -2 * sc.CmdDelay; arr <= 8*sc.CmdDelay+120*time.Millisecond; arr += 7 * time.Millisecond {
			for _, d1 := range sc.ReqDs {
				for _, d2 := range sc.ReqDs {
					k++
					id := fmt.Sprintf("q%d", k)
					metas[id] = meta{arr, d1, d2}
					if d1 > 0 {
						w.SetReqDelay(id, "route.resolved", d1)
					}
					if d2 > 0 {
						w.SetReqDelay(id, "service.gate.passed", d2)
					}
					w.GoReq(tCmd+arr+OffArrival, mkReq(id, useCookie))
				}
			}
		}
	}
	// a few plain requests after the command returned (sent at fixed offsets; judged relative to the recorded return)
	for i, off := range []time.Duration{40 * time.Second, 41 * time.Second} {
		w.GoReq(tCmd+off+OffArrival, mkReq(fmt.Sprintf("p%d", i), useCookie))
	}
	var cmd, resume *CmdRec
	if sc.RolloutStopped {
		w.At(tCmd-time.Millisecond, func() { w.RolloutStop(svc) })
	}
	w.At(tCmd, func() {
		switch sc.Cmd {
		case "deploy":
			cmd = w.Deploy(svc, next, DefSO, to, 5*time.Second, sc.DrainTO)
		case "rollout-deploy":
			cmd = w.RolloutDeploy(svc, next, 5*time.Second, sc.DrainTO)
		case "pause":
			cmd = w.Pause(svc, sc.DrainTO, 100*time.Second)
		case "stop":
			cmd = w.Stop(svc, sc.DrainTO, "down")
		}
	})
	tResume := tCmd + 45*time.Second
	if sc.Cmd == "pause" || sc.Cmd == "stop" {
		w.At(tResume, func() { resume = w.Resume(svc) })
		w.GoReq(tResume+time.Second+OffArrival, mkReq("after-resume", false))
	}
	w.Wait()

	// ---------- oracle ----------
	run.Eval()
	fail := func(sig, format string, a ...any) {
		run.Violate(sig, fmt.Sprintf(format, a...), sc, func() []string { return w.Trace(300) })
	}
	if cmd == nil || !cmd.Done {
		run.Inconclusive("command did not complete")
		return
	}
	if cmd.Panic != "" || cmd.Err != "" {
		fail("command-failed", "%s failed: err=%q panic=%q", sc.Cmd, cmd.Err, cmd.Panic)
		return
	}
	tRet := cmd.Ret
	tDrain := cmd.Issue
	if ts := w.HookTimes("target.drain.begin", ""); len(ts) > 0 {
		for _, x := range ts {
			if x >= cmd.Issue {
				tDrain = x
				break
			}
		}
	}
	until := time.Duration(1<<62 - 1)
	if resume != nil {
		until = resume.Issue
	}
	resps := map[string]Resp{}
	for _, r := range w.RespLog() {
		resps[r.ID] = r
	}
	// (a) quiescent at return, (b) nothing sent afterwards
	for name := range drained {
		for _, q := range w.Target(name).ReqLog() {
			if q.Recv <= tRet && (q.Outcome == "open" || q.End > tRet+Eps) {
				fail("open-at-return:"+sc.Cmd, "request %s still being served by drained target %s when %s returned at %v (received %v, ended %v %s)", q.ID, name, sc.Cmd, tRet, q.Recv, q.End, q.Outcome)
				return
			}
			if q.Recv > tRet && q.Recv < until {
				how := ""
				if m, ok := metas[q.ID]; ok {
					how = fmt.Sprintf(" (placed: arrival %+v, delays %v/%v)", m.arr, m.d1, m.d2)
				}
				fail("sent-after-return:"+sc.Cmd, "request %s reached drained target %s at %v, after %s had returned at %v%s", q.ID, name, q.Recv, sc.Cmd, tRet, how)
				return
			}
		}
	}
	run.Count("requests_at_drained_targets_checked", len(drained))
	if !sc.Placed {
		deadline := tDrain + sc.DrainTO
		for i, f := range sc.Inflight {
			id := fmt.Sprintf("f%d", i)
			r, ok := resps[id]
			if !ok {
				run.Inconclusive("no record for in-flight request %s", id)
				return
			}
			fin := tDrain + f.Fin
			switch {
			case f.Kind == "upgrade":
				if !r.Upgraded || !r.Echo {
					fail("upgrade-not-established", "upgraded request %s: status=%d upgraded=%v echo=%v err=%q", id, r.Status, r.Upgraded, r.Echo, r.Err)
					return
				}
				if !near(r.ClosedAt, tDrain) {
					fail("upgrade-not-closed-at-drain", "upgraded connection %s was closed at %v, draining began at %v", id, r.ClosedAt, tDrain)
					return
				}
				run.Count("upgraded_checked", 1)
			case strings.HasPrefix(f.Kind, "edge"):
				run.Count("ties_skipped", 1)
				if !(r.Status == 200 || r.Status == 504) {
					fail("edge-bad-status", "request %s finishing at the drain deadline got status %d err=%q", id, r.Status, r.Err)
					return
				}
			case f.Kind == "never" || fin > deadline+2*Eps:
				if r.Status != 504 {
					fail("late-not-504", "request %s (natural finish %v, deadline %v) got status %d err=%q instead of 504", id, fin, deadline, r.Status, r.Err)
					return
				}
				if !near(r.Done, deadline) {
					fail("cut-off-time", "request %s was cut off at %v, drain deadline was %v", id, r.Done, deadline)
					return
				}
				run.Count("cutoffs_checked", 1)
			default:
				if f.Kind == "early-stream" && (string(r.Body) != "part1part2" || r.Err != "") {
					fail("streamed-response-cut", "in-flight streamed response %s (natural finish %v < deadline %v) was cut: body %q err %q", id, fin, deadline, string(r.Body), r.Err)
					return
				}
				if r.Status != 200 || !drained[r.Target] || !near(r.Done, fin) {
					fail("early-not-completed", "request %s (natural finish %v < deadline %v) got status=%d target=%q at %v err=%q", id, fin, deadline, r.Status, r.Target, r.Done, r.Err)
					return
				}
				run.Count("normal_completions_checked", 1)
			}
		}
	} else {
		n := 0
		for id := range metas {
			if r, ok := resps[id]; ok && r.Status == 200 {
				n++
			}
		}
		run.Count("placed_requests_served", n)
	}
	// sanity: traffic flows where it should afterwards
	if r, ok := resps["after-resume"]; ok && sc.Cmd != "deploy" && sc.Cmd != "rollout-deploy" && !sc.Sick {
		if r.Status != 200 {
			fail("not-serving-after-resume", "request after resume got %d", r.Status)
			return
		}
	}
	if c := sc.class(); c != "" {
		run.Class(c)
	}
	run.Sample(map[string]any{"scenario": sc, "issue": cmd.Issue.String(), "drain_begin": tDrain.String(), "returned": tRet.String()})
}
