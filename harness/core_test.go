// Package verifharness: runtime monitors for kamal-proxy (see /verif/DESIGN.md).
//
// The package is copied to <scratch>/internal/verifharness inside a copy of the
// repository's working tree and built as a test binary with -tags verif. Every
// TestCxx function is one property monitor; it is driven by environment
// variables set by /verif/check:
//
//	VERIF_SEED   integer seed (all random choices derive from it)
//	VERIF_TIER   quick | thorough
//	VERIF_SHARD  shard index k of VERIF_SHARDS (independent scenario subsets)
//	VERIF_OUT    path of the JSON result file this process must write
//	VERIF_JOURNAL path of the journal (scenario descriptor appended before it runs)
//	VERIF_ONLY   "<index>" run only that scenario index (replay)
//	VERIF_FROM   first scenario index to run (restart after a crashed scenario)
package verifharness

import (
	"encoding/json"
	"fmt"
	"hash/fnv"
	"math/rand/v2"
	"os"
	"regexp"
	"runtime"
	"sort"
	"strconv"
	"strings"
	"sync"
	"testing"
	"time"
)

// Violation is one refutation of a property, with everything needed to replay it.
type Violation struct {
	Property string `json:"property"`
	Sig      string `json:"signature"` // matched against KNOWN_FINDINGS.jsonl
	What     string `json:"what"`
	Scenario int    `json:"scenario"`
	Shard    int    `json:"shard"`
	Seed     uint64 `json:"seed"`
	Desc     any    `json:"descriptor,omitempty"`
	Trace    any    `json:"trace,omitempty"`
}

// Result is what one shard process reports.
type Result struct {
	Property     string         `json:"property"`
	Tier         string         `json:"tier"`
	Seed         uint64         `json:"seed"`
	Shard        int            `json:"shard"`
	Shards       int            `json:"shards"`
	Evaluations  int            `json:"evaluations"`
	Classes      map[string]int `json:"classes"`  // distinct non-trivial classes -> count
	Counters     map[string]int `json:"counters"` // property-specific counters (events, ties, ...)
	Violations   []Violation    `json:"violations"`
	Inconclusive []string       `json:"inconclusive"`
	Samples      []any          `json:"samples"`
	Exhaustive   bool           `json:"exhaustive"`
	Done         bool           `json:"done"`
	LastIndex    int            `json:"last_index"`
}

// Run is the per-process monitor context.
type Run struct {
	mu      sync.Mutex
	T       *testing.T
	Prop    string
	Tier    string
	Seed    uint64
	Shard   int
	Shards  int
	Only    int
	From    int
	Res     Result
	journal *os.File
	out     string
	cur     int
	// scenario watchdog (wall clock): see watchdog()
	curDesc  any
	curStart time.Time
	finished bool
}

func envInt(name string, def int) int {
	v, err := strconv.Atoi(os.Getenv(name))
	if err != nil {
		return def
	}
	return v
}

// NewRun reads the environment. Without VERIF_OUT the monitor still runs (plain
// `go test`), prints its summary and fails the test on violations.
func NewRun(t *testing.T, prop string) *Run {
	seed, _ := strconv.ParseUint(os.Getenv("VERIF_SEED"), 10, 64)
	r := &Run{
		T: t, Prop: prop,
		Tier:   os.Getenv("VERIF_TIER"),
		Seed:   seed,
		Shard:  envInt("VERIF_SHARD", 0),
		Shards: envInt("VERIF_SHARDS", 1),
		Only:   envInt("VERIF_ONLY", -1),
		From:   envInt("VERIF_FROM", 0),
		out:    os.Getenv("VERIF_OUT"),
	}
	if r.Tier == "" {
		r.Tier = "quick"
	}
	r.Res = Result{Property: prop, Tier: r.Tier, Seed: seed, Shard: r.Shard, Shards: r.Shards,
		Classes: map[string]int{}, Counters: map[string]int{}, Violations: []Violation{}, Inconclusive: []string{}, Samples: []any{}}
	// When appending to a previous partial result of the same shard (restart
	// after a crashed scenario) the driver merges files; each process writes its own.
	if j := os.Getenv("VERIF_JOURNAL"); j != "" {
		f, err := os.OpenFile(j, os.O_CREATE|os.O_WRONLY|os.O_APPEND, 0o644)
		if err == nil {
			r.journal = f
		}
	}
	go r.watchdog()
	return r
}

// watchdog: a scenario that makes no progress for minutes of wall-clock time. In the virtual-time
// worlds that is what a deadlock or a busy loop in the proxy looks like: a goroutine waiting for a
// sync.Mutex (or spinning) is not durably blocked, so the fake clock stops and the scenario never
// ends. The firing of the watchdog decides nothing; two goroutine dumps ten seconds apart do:
//   - a goroutine running proxy code is waiting for one of the proxy's locks in both dumps, and no
//     goroutine is asleep inside one of the harness's own hook delays (which would point at the
//     harness): the proxy is deadlocked - a violation, with the dump as witness;
//   - the same goroutine is running or runnable inside proxy code in both dumps: the proxy is
//     spinning - a violation;
//   - anything else is inconclusive.
//
// Either way this process cannot continue (the scenario's goroutines never return): the partial
// result is written and the process exits with status 98; the driver restarts the shard behind
// the journalled scenario.
func (r *Run) watchdog() {
	limit := time.Duration(envInt("VERIF_SCENARIO_WALL_SECONDS", 300)) * time.Second
	for {
		time.Sleep(5 * time.Second)
		r.mu.Lock()
		start, done, cur := r.curStart, r.finished, r.cur
		r.mu.Unlock()
		if done {
			return
		}
		if start.IsZero() || time.Since(start) < limit {
			continue
		}
		d1 := allStacks()
		time.Sleep(10 * time.Second)
		r.mu.Lock()
		moved := r.cur != cur || r.finished
		desc := r.curDesc
		r.mu.Unlock()
		if moved {
			continue // it did end after all
		}
		d2 := allStacks()
		verdict, what := classifyStall(d1, d2)
		trace := strings.Split(trunc(d2, 60000), "\n")
		switch verdict {
		case "deadlock", "spinning":
			r.Violate("no-progress:"+verdict+":"+what, fmt.Sprintf("the scenario made no progress for %v of wall-clock time: the proxy is %s (%s); goroutine dump attached", limit, map[string]string{"deadlock": "deadlocked: goroutines in its code wait for its own locks", "spinning": "spinning: a goroutine stays runnable inside its code"}[verdict], what), desc, trace)
		default:
			r.Inconclusive("scenario %d made no progress for %v of wall-clock time; the goroutine dumps do not show a deadlock or a busy loop in the proxy (%s)", cur, limit, what)
		}
		r.mu.Lock()
		res := r.Res
		r.mu.Unlock()
		if r.out != "" {
			b, _ := json.MarshalIndent(res, "", " ")
			os.WriteFile(r.out, b, 0o644)
		}
		fmt.Fprintf(os.Stderr, "VERIF-SCENARIO-WATCHDOG scenario=%d verdict=%s %s\n", cur, verdict, what)
		os.Exit(98)
	}
}

func allStacks() string {
	buf := make([]byte, 4<<20)
	return string(buf[:runtime.Stack(buf, true)])
}

var goroutineHead = regexp.MustCompile(`^goroutine (\d+)[^\[]*\[([^\],]*)`)

// classifyStall compares two goroutine dumps of a stalled scenario (see watchdog).
func classifyStall(d1, d2 string) (verdict, what string) {
	type g struct{ state, fn string }
	parse := func(d string) (map[string]g, bool) {
		out := map[string]g{}
		hookSleeper := false
		for _, blk := range strings.Split(d, "\n\n") {
			m := goroutineHead.FindStringSubmatch(blk)
			if m == nil {
				continue
			}
			if strings.Contains(blk, "verifharness.(*World).hook") && strings.Contains(blk, "time.Sleep") {
				hookSleeper = true
			}
			if !strings.Contains(blk, "kamal-proxy/internal/server.") {
				continue
			}
			fn := ""
			for _, line := range strings.Split(blk, "\n") {
				if strings.HasPrefix(line, "github.com/basecamp/kamal-proxy/internal/server.") {
					fn = strings.TrimPrefix(strings.SplitN(line, "(0x", 2)[0], "github.com/basecamp/kamal-proxy/internal/server.")
					if i := strings.LastIndex(fn, "("); i > 0 && strings.HasSuffix(fn, ")") && !strings.Contains(fn[i:], "*") {
						fn = fn[:i]
					}
					break
				}
			}
			out[m[1]] = g{state: m[2], fn: fn}
		}
		return out, hookSleeper
	}
	g1, hs1 := parse(d1)
	g2, hs2 := parse(d2)
	var locked, spinning []string
	for id, a := range g2 {
		b, ok := g1[id]
		if !ok || a.fn != b.fn {
			continue
		}
		lockWait := func(s string) bool {
			return strings.Contains(s, "sync.Mutex") || strings.Contains(s, "sync.RWMutex") || strings.Contains(s, "semacquire")
		}
		switch {
		case lockWait(a.state) && lockWait(b.state):
			locked = append(locked, a.fn)
		case (a.state == "running" || a.state == "runnable") && (b.state == "running" || b.state == "runnable"):
			spinning = append(spinning, a.fn)
		}
	}
	sort.Strings(locked)
	sort.Strings(spinning)
	switch {
	case len(locked) > 0 && !hs1 && !hs2:
		return "deadlock", "waiting in " + strings.Join(uniq(locked), ", ")
	case len(spinning) > 0:
		return "spinning", "in " + strings.Join(uniq(spinning), ", ")
	case len(locked) > 0:
		return "", "lock waits in " + strings.Join(uniq(locked), ", ") + " while a harness hook delay is pending"
	}
	return "", "no goroutine of the proxy waits for a lock or stays runnable"
}

func uniq(xs []string) []string {
	var out []string
	for i, x := range xs {
		if i == 0 || x != xs[i-1] {
			out = append(out, x)
		}
	}
	return out
}

// NewScratchRun returns a run context whose findings are discarded: used to execute scenario
// runners of other properties under the race detector (C18), where only the detector's reports count.
func NewScratchRun(t *testing.T, seed uint64, tier string) *Run {
	return &Run{T: t, Prop: "scratch", Tier: tier, Seed: seed, Shards: 1, Only: -1,
		Res: Result{Classes: map[string]int{}, Counters: map[string]int{}, Violations: []Violation{}, Inconclusive: []string{}, Samples: []any{}}}
}

func (r *Run) Thorough() bool { return r.Tier == "thorough" }

// N picks the scenario count by tier.
func (r *Run) N(quick, thorough int) int {
	if r.Thorough() {
		return thorough
	}
	return quick
}

// Mine reports whether scenario index i belongs to this shard/replay window.
// It also journals the scenario before it runs.
func (r *Run) Mine(i int, desc any) bool {
	if r.Only >= 0 {
		if i != r.Only {
			return false
		}
	} else {
		if i%r.Shards != r.Shard || i < r.From {
			return false
		}
	}
	r.mu.Lock()
	r.cur = i
	r.curDesc = desc
	r.curStart = time.Now()
	r.Res.LastIndex = i
	r.mu.Unlock()
	if r.journal != nil {
		b, _ := json.Marshal(map[string]any{"property": r.Prop, "scenario": i, "shard": r.Shard, "seed": r.Seed, "descriptor": desc})
		r.journal.Write(append(b, '\n'))
	}
	return true
}

// Rand returns the PRNG of scenario i: a function of (seed, property, i) only,
// so a scenario is replayed by its index regardless of sharding.
func (r *Run) Rand(i int) *rand.Rand {
	h := fnv.New64a()
	fmt.Fprintf(h, "%s/%d", r.Prop, i)
	return rand.New(rand.NewPCG(r.Seed^0x9e3779b97f4a7c15, h.Sum64()))
}

func (r *Run) Eval()                 { r.mu.Lock(); r.Res.Evaluations++; r.mu.Unlock() }
func (r *Run) Class(k string)        { r.mu.Lock(); r.Res.Classes[k]++; r.mu.Unlock() }
func (r *Run) Count(k string, n int) { r.mu.Lock(); r.Res.Counters[k] += n; r.mu.Unlock() }

func (r *Run) Sample(s any) {
	r.mu.Lock()
	if len(r.Res.Samples) < 4 {
		r.Res.Samples = append(r.Res.Samples, s)
	}
	r.mu.Unlock()
}

func (r *Run) Inconclusive(format string, a ...any) {
	r.mu.Lock()
	r.Res.Inconclusive = append(r.Res.Inconclusive, fmt.Sprintf(format, a...))
	r.mu.Unlock()
}

// Violate records a violation of the property in the current scenario.
func (r *Run) Violate(sig, what string, desc any, traceOrFn any) {
	r.mu.Lock()
	defer r.mu.Unlock()
	trace := traceOrFn
	// keep the result file bounded: at most 40 full violations, then only counts
	r.Res.Counters["violations_total"]++
	r.Res.Counters["sig:"+sig]++
	if len(r.Res.Violations) >= 40 {
		return
	}
	n := 0
	for _, v := range r.Res.Violations {
		if v.Sig == sig {
			n++
		}
	}
	if n >= 3 {
		return
	}
	if f, ok := traceOrFn.(func() []string); ok {
		trace = f()
	}
	r.Res.Violations = append(r.Res.Violations, Violation{Property: r.Prop, Sig: sig, What: what, Scenario: r.cur, Shard: r.Shard, Seed: r.Seed, Desc: desc, Trace: trace})
}

// Finish writes the result file; in stand-alone mode it fails the test on violations.
func (r *Run) Finish() {
	r.mu.Lock()
	r.finished = true
	r.mu.Unlock()
	if p := recover(); p != nil {
		// the monitor itself panicked (e.g. synctest found blocked goroutines at scenario end):
		// write the partial result without the done mark; the driver attributes the death to the
		// journalled scenario and restarts the shard after it
		r.mu.Lock()
		res := r.Res
		r.mu.Unlock()
		if r.out != "" {
			b, _ := json.MarshalIndent(res, "", " ")
			os.WriteFile(r.out, b, 0o644)
		}
		panic(p)
	}
	r.mu.Lock()
	r.Res.Done = true
	res := r.Res
	r.mu.Unlock()
	if r.out != "" {
		b, _ := json.MarshalIndent(res, "", " ")
		if err := os.WriteFile(r.out, b, 0o644); err != nil {
			r.T.Fatalf("cannot write %s: %v", r.out, err)
		}
		return
	}
	keys := make([]string, 0, len(res.Counters))
	for k := range res.Counters {
		keys = append(keys, k)
	}
	sort.Strings(keys)
	r.T.Logf("%s: evaluations=%d classes=%d", r.Prop, res.Evaluations, len(res.Classes))
	for _, k := range keys {
		r.T.Logf("  %s = %d", k, res.Counters[k])
	}
	for _, in := range res.Inconclusive {
		r.T.Logf("INCONCLUSIVE %s", in)
	}
	for _, v := range res.Violations {
		b, _ := json.Marshal(v.Desc)
		r.T.Errorf("VIOLATION %s scenario=%d sig=%s: %s\n  desc=%s", v.Property, v.Scenario, v.Sig, v.What, b)
	}
}

// Lattices (DESIGN 3.3): harness-caused instants come from disjoint lattices so
// that independent events never share a virtual instant.
const (
	Step       = time.Millisecond
	OffArrival = 333 * time.Microsecond
	OffTarget  = 7 * time.Microsecond
	OffHook    = 61 * time.Microsecond
	Eps        = 100 * time.Millisecond // virtual-time slack for "exactly at" clauses
)

func absDur(d time.Duration) time.Duration {
	if d < 0 {
		return -d
	}
	return d
}

func near(a, b time.Duration) bool { return absDur(a-b) <= Eps }

func pick[T any](rng *rand.Rand, xs []T) T { return xs[rng.IntN(len(xs))] }
