package verifharness

// C01 Traffic moves to new targets only after all of them pass a health probe.

import (
	"fmt"
	"github.com/basecamp/kamal-proxy/internal/server"
	"math/rand/v2"
	"net/http"
	"net/http/httptest"
	"os"
	"path/filepath"
	"sort"
	"strings"
	"sync"
	"sync/atomic"
	"testing"
	"testing/synctest"
	"time"
)

type c01Target struct {
	Name    string        `json:"name"`
	Fails   []string      `json:"fails"` // outcomes of the first probes
	Never   bool          `json:"never"` // never succeeds
	OKStat  int           `json:"ok_status"`
	OKLat   time.Duration `json:"ok_latency"`
	Relapse bool          `json:"relapse"` // fails again after its first success
	// RelapseFor > 0: the relapse lasts that many probes, then the target passes again (a target
	// that turns healthy twice must not count for two)
	RelapseFor int `json:"relapse_for,omitempty"`
}

type c01Scenario struct {
	Idx          int           `json:"idx"`
	Slot         string        `json:"slot"` // active | rollout
	FirstRollout bool          `json:"first_rollout"`
	Old          []string      `json:"old"`
	New          []c01Target   `json:"new"`
	Placement    string        `json:"placement"`
	DeployTO     time.Duration `json:"deploy_timeout"`
	// HCPath: the configured health-check path when it is not the default - spelled so that a
	// careless URL join would send the probes somewhere else (to "probe-sink:80", which answers 200 to
	// everything). It is the *target* that has to answer a probe with 2xx.
	HCPath string `json:"health_check_path,omitempty"`
	// Gate: the state of the service's request gate when the command is issued: "" (running),
	// "paused" or "stopped" - the operator paused/stopped the service (at 1.5s, while the client
	// stream runs) before deploying into it. Resume: when the service is resumed again: "mid" (at a
	// fixed instant after the issue, typically while the command is still waiting for its targets) or
	// "after" (700ms after the command returned). What the command owes its new targets - every one
	// of them answers a probe 2xx first, within the deploy timeout - does not depend on whether the
	// gate lets requests through at that moment: once the service is resumed, it answers from the
	// new targets only if all of them passed in time, and from the ones it had before otherwise.
	Gate   string `json:"gate,omitempty"`
	Resume string `json:"resume,omitempty"`
}

const (
	c01Interval = time.Second
	c01ProbeTO  = 400 * time.Millisecond
)

var c01FailKinds = []string{"refuse", "500", "404", "300", "503", "slow", "close"}

func (t c01Target) script() func(n int, at time.Duration) ProbeAct {
	return func(n int, at time.Duration) ProbeAct {
		kind := ""
		switch {
		case n < len(t.Fails):
			kind = t.Fails[n]
		case t.Never:
			kind = "500"
			if len(t.Fails) > 0 {
				kind = t.Fails[len(t.Fails)-1]
			}
		case t.Relapse && n > len(t.Fails) && (t.RelapseFor == 0 || n <= len(t.Fails)+t.RelapseFor):
			kind = "500"
		default:
			return ProbeAct{Status: t.OKStat, Delay: t.OKLat}
		}
		switch kind {
		case "refuse":
			return ProbeAct{Refuse: true}
		case "slow":
			return ProbeAct{Status: 200, Delay: c01ProbeTO + 300*time.Millisecond + OffTarget}
		case "close":
			return ProbeAct{Close: true}
		default:
			st := 500
			fmt.Sscanf(kind, "%d", &st)
			return ProbeAct{Status: st}
		}
	}
}

func c01Gen(rng *rand.Rand, idx int) c01Scenario {
	sc := c01Scenario{Idx: idx, Slot: "active"}
	if rng.IntN(3) == 0 {
		sc.Slot = "rollout"
		sc.FirstRollout = rng.IntN(3) == 0
	}
	nOld := rng.IntN(3)
	if sc.Slot == "rollout" && nOld == 0 {
		nOld = 1
	}
	for i := 0; i < nOld; i++ {
		sc.Old = append(sc.Old, fmt.Sprintf("old%d-t%d:80", idx%7, i))
	}
	nNew := 1 + rng.IntN(4)
	maxK, anyNever := 0, false
	for i := 0; i < nNew; i++ {
		t := c01Target{Name: fmt.Sprintf("new%d-t%d:80", idx%7, i), OKStat: pick(rng, []int{200, 200, 204, 299}), OKLat: pick(rng, []time.Duration{0, 0, 3*time.Millisecond + OffTarget, 150*time.Millisecond + OffTarget})}
		k := 0
		switch rng.IntN(4) {
		case 0:
			k = 0
		case 1:
			k = 1 + rng.IntN(2)
		default:
			k = rng.IntN(7)
		}
		for j := 0; j < k; j++ {
			t.Fails = append(t.Fails, pick(rng, c01FailKinds))
		}
		if rng.IntN(6) == 0 {
			t.Never = true
			anyNever = true
		}
		if !t.Never && nNew >= 2 && i == 0 && rng.IntN(3) == 0 {
			t.Relapse = true
			if rng.IntN(2) == 0 {
				t.RelapseFor = 1 + rng.IntN(2)
			}
		}
		if k > maxK {
			maxK = k
		}
		sc.New = append(sc.New, t)
	}
	last := time.Duration(maxK) * c01Interval
	places := []string{"after", "after", "before", "long", "tie"}
	if anyNever {
		places = []string{"after", "short", "long"}
	}
	sc.Placement = pick(rng, places)
	switch sc.Placement {
	case "after":
		sc.DeployTO = last + 500*time.Millisecond
	case "before":
		if last == 0 {
			sc.Placement = "after"
			sc.DeployTO = 500 * time.Millisecond
		} else {
			sc.DeployTO = last - 500*time.Millisecond
		}
	case "long":
		sc.DeployTO = 30 * time.Second
		if anyNever {
			sc.DeployTO = last + 3*time.Second
		}
	case "short":
		sc.DeployTO = 300 * time.Millisecond
	case "tie":
		sc.DeployTO = last
		if last == 0 {
			sc.Placement = "after"
			sc.DeployTO = 500 * time.Millisecond
		}
	}
	if idx%4 == 1 {
		sc.HCPath = []string{"//probe-sink:80/up", "http://probe-sink:80/up", "/up?full=1", "//probe-sink:80", "up", "/../up"}[(idx/4)%6]
	}
	return sc
}

// c01GenGated: a scenario of the general family (same target scripts, placements, slots) whose
// command is issued while the service is paused or stopped. Such a service exists, so it has at
// least one old target.
func c01GenGated(rng *rand.Rand, idx int) c01Scenario {
	sc := c01Gen(rng, idx)
	if len(sc.Old) == 0 {
		sc.Old = []string{fmt.Sprintf("old%d-t0:80", idx%7)}
	}
	sc.Gate = pick(rng, []string{"stopped", "stopped", "paused"})
	sc.Resume = pick(rng, []string{"after", "after", "mid"})
	return sc
}

func (sc c01Scenario) class(outcome string) string {
	var shapes []string
	nontrivial := false
	for _, t := range sc.New {
		kinds := map[string]bool{}
		for _, f := range t.Fails {
			kinds[f] = true
		}
		var ks []string
		for k := range kinds {
			ks = append(ks, k)
		}
		sort.Strings(ks)
		s := fmt.Sprintf("k%d[%s]", len(t.Fails), strings.Join(ks, ","))
		if t.Never {
			s += "never"
		}
		if t.Relapse {
			s += "relapse"
		}
		if len(t.Fails) > 0 || t.Never {
			nontrivial = true
		}
		shapes = append(shapes, s)
	}
	sort.Strings(shapes)
	if sc.Gate != "" {
		// coarser in the script shapes (the ungated family spans those), exact in what is new here
		shape := "all-pass-at-once"
		if nontrivial {
			shape = "some-fail-first"
		}
		for _, t := range sc.New {
			if t.Never {
				shape = "some-never-pass"
			}
		}
		return fmt.Sprintf("gate=%s|resume=%s|n%d|%s|%s|%s|%s", sc.Gate, sc.Resume, len(sc.New), shape, sc.Placement, sc.Slot, outcome)
	}
	if !nontrivial && outcome == "ok" {
		return ""
	}
	return fmt.Sprintf("n%d|%s|%s|%s|old%d|%s", len(sc.New), strings.Join(shapes, " "), sc.Placement, sc.Slot, len(sc.Old), outcome)
}

func TestC01(t *testing.T) {
	run := NewRun(t, "C01")
	defer run.Finish()
	n := run.N(480, 24000)
	// (first: in virtual time a change that makes the proxy wait for a probe under one of its locks only stalls)
	nl := run.N(3, 12)
	for k := 0; k < nl; k++ {
		desc := map[string]any{"idx": k, "kind": "probe-in-flight-at-the-deadline (real time)"}
		if !run.Mine(k, desc) {
			continue
		}
		c01Live(t, run, k, desc)
	}
	for i := 0; i < n; i++ {
		rng := run.Rand(i)
		sc := c01Gen(rng, i)
		if !run.Mine(nl+i, sc) {
			continue
		}
		synctest.Test(t, func(t *testing.T) { c01Run(t, run, sc) })
	}
	// redeploys that name the targets the service is already running on
	for k := 0; k < run.N(48, 1200); k++ {
		rng := run.Rand(n + k)
		sc := c01Same{Idx: k, NT: 1 + rng.IntN(2), Rollout: rng.IntN(3) == 0, BadFor: pick(rng, []int{-1, -1, 0, 1, 2, 4}), DeployTO: pick(rng, []time.Duration{1500 * time.Millisecond, 3500 * time.Millisecond})}
		if !run.Mine(nl+n+k, sc) {
			continue
		}
		synctest.Test(t, func(t *testing.T) { c01RunSame(t, run, sc) })
	}
	// deploys and rollout deploys into a service that is paused or stopped when the command is issued,
	// and is resumed while the command waits or after it returned
	ns := run.N(48, 1200)
	for k := 0; k < run.N(160, 8000); k++ {
		rng := run.Rand(n + ns + k)
		sc := c01GenGated(rng, k)
		if !run.Mine(nl+n+ns+k, sc) {
			continue
		}
		synctest.Test(t, func(t *testing.T) { c01Run(t, run, sc) })
	}
}

// c01Live: real time, real sockets (in virtual time code that waits for a probe while holding one of
// the proxy's locks stops the clock, and all one learns is that it stalled). The new target answers
// its health probes 2xx - 700ms after they were sent; the deploy timeout is 300ms, the probe timeout
// 2s: a probe is in flight when the deadline passes and is answered 2xx afterwards. The command
// reports failure, no client request ever reaches the new target, and the service keeps answering
// from its old target (or stays absent). The verdict reads outcomes, never the clock.
func c01Live(t *testing.T, run *Run, idx int, desc any) {
	run.Eval()
	RestoreHTTPDefaults()
	dir, err := os.MkdirTemp("", "vh-c01-")
	if err != nil {
		run.Inconclusive("tempdir: %v", err)
		return
	}
	defer os.RemoveAll(dir)
	var atNew atomic.Int64
	oldT := httptest.NewServer(http.HandlerFunc(func(w http.ResponseWriter, r *http.Request) { w.Write([]byte("old")) }))
	defer oldT.Close()
	newT := httptest.NewServer(http.HandlerFunc(func(w http.ResponseWriter, r *http.Request) {
		if r.URL.Path == "/up" {
			time.Sleep(700 * time.Millisecond)
			w.WriteHeader([]int{200, 204, 299}[idx%3])
			return
		}
		atNew.Add(1)
		w.Write([]byte("new"))
	}))
	defer newT.Close()
	router := server.NewRouter(filepath.Join(dir, "state.json"))
	to := server.TargetOptions{HealthCheckConfig: server.HealthCheckConfig{Path: "/up", Interval: 100 * time.Millisecond, Timeout: 2 * time.Second}, ResponseTimeout: 10 * time.Second}
	fast := to
	addr := func(s *httptest.Server) string { return strings.TrimPrefix(s.URL, "http://") }
	existing, rollout := idx%3 != 2, idx%3 == 1
	if existing {
		if err := router.DeployService("svc", []string{addr(oldT)}, server.ServiceOptions{}, fast, 10*time.Second, time.Second); err != nil {
			run.Inconclusive("setup deploy: %v", err)
			return
		}
	}
	var stop atomic.Bool
	var wrong atomic.Value
	var wg sync.WaitGroup
	for c := 0; c < 4; c++ {
		wg.Add(1)
		go func() {
			defer wg.Done()
			for !stop.Load() {
				req := httptest.NewRequest("GET", "http://live.example/x", nil)
				req.Header.Set("Cookie", "kamal-rollout=u1")
				rec := httptest.NewRecorder()
				router.ServeHTTP(rec, req)
				if existing && (rec.Code != 200 || rec.Body.String() != "old") || !existing && rec.Code != 404 {
					wrong.CompareAndSwap(nil, fmt.Sprintf("status %d body %q", rec.Code, trunc(rec.Body.String(), 40)))
				}
				time.Sleep(5 * time.Millisecond)
			}
		}()
	}
	var derr error
	if rollout {
		derr = router.SetRolloutTargets("svc", []string{addr(newT)}, 300*time.Millisecond, time.Second)
		if derr == nil {
			router.SetRolloutSplit("svc", 100, nil)
		}
	} else {
		derr = router.DeployService("svc", []string{addr(newT)}, server.ServiceOptions{}, to, 300*time.Millisecond, time.Second)
	}
	time.Sleep(1500 * time.Millisecond) // requests keep coming well after the late probe was answered
	stop.Store(true)
	wg.Wait()
	router.RemoveService("svc")
	fail := func(sig, format string, a ...any) {
		run.Violate(sig, fmt.Sprintf(format, a...), desc, nil)
	}
	kind := map[bool]string{true: "rollout deploy", false: "deploy"}[rollout]
	if derr == nil {
		fail("late-probe-accepted", "%s with a deploy timeout of 300ms onto a target that answers its probes 2xx only after 700ms reported success (a probe was in flight when the deadline passed and was answered afterwards)", kind)
		return
	}
	if n := atNew.Load(); n > 0 {
		fail("traffic-to-target-of-failed-deploy", "%s failed (%v), yet %d client requests reached its target", kind, derr, n)
		return
	}
	if w := wrong.Load(); w != nil {
		fail("service-changed-by-failed-deploy", "%s failed (%v); while and after it ran a client got %v (service existed before: %v)", kind, derr, w, existing)
		return
	}
	run.Class(fmt.Sprintf("live|late-probe|existing=%v|rollout=%v", existing, rollout))
}

// c01Same: the service runs on targets T (all healthy). At 2.3s (between two probes of the running
// deployment, which therefore still has them in rotation) the targets start failing their probes
// (forever: BadFor -1, or for that many probes) and a deploy (rollout deploy) naming exactly T is
// issued. Whatever the proxy knows about the targets from before, the command may only succeed once
// every target of the *new* deployment has passed a probe, i.e. answered one that was sent after the
// command was issued.
type c01Same struct {
	Idx      int           `json:"idx"`
	NT       int           `json:"n_targets"`
	Rollout  bool          `json:"rollout_slot"`
	BadFor   int           `json:"failing_probes_after_issue"` // -1: forever
	DeployTO time.Duration `json:"deploy_timeout"`
}

func c01RunSame(t *testing.T, run *Run, sc c01Same) {
	w := NewWorld(t, WorldOpt{})
	defer w.Close()
	run.Eval()
	to := DefTO
	to.HealthCheckConfig.Interval = c01Interval
	to.HealthCheckConfig.Timeout = c01ProbeTO
	const svc = "svc"
	tBad := 2*time.Second + 300*time.Millisecond // between two probes of the running deployment
	tIssue := tBad + 50*time.Millisecond
	var names []string
	for i := 0; i < sc.NT; i++ {
		name := fmt.Sprintf("same%d-t%d:80", sc.Idx%7, i)
		names = append(names, name)
		bad := 0
		w.AddTarget(name, func(n int, at time.Duration) ProbeAct {
			if at < tBad {
				return ProbeAct{Status: 200}
			}
			bad++
			if sc.BadFor < 0 || bad <= sc.BadFor*2 { // two load balancers probe it while the deploy waits
				return ProbeAct{Status: 500}
			}
			return ProbeAct{Status: 200}
		})
	}
	w.AddTarget("base-t0:80", nil)
	active := names
	if sc.Rollout {
		active = []string{"base-t0:80"}
	}
	if c := w.Deploy(svc, active, DefSO, to, 5*time.Second, time.Second); c.Err != "" {
		run.Inconclusive("setup: %s", c.Err)
		return
	}
	if sc.Rollout {
		if c := w.RolloutDeploy(svc, names, 5*time.Second, time.Second); c.Err != "" {
			run.Inconclusive("setup: %s", c.Err)
			return
		}
		w.RolloutSet(svc, 100, nil)
	}
	w.SleepUntil(tIssue)
	var cmd *CmdRec
	if sc.Rollout {
		cmd = w.RolloutDeploy(svc, names, sc.DeployTO, time.Second)
	} else {
		cmd = w.Deploy(svc, names, DefSO, to, sc.DeployTO, time.Second)
	}
	time.Sleep(3 * c01Interval)
	if cmd.Panic != "" {
		run.Violate("panic", "command panicked: "+cmd.Panic, sc, func() []string { return w.Trace(200) })
		return
	}
	outcome := "failed"
	if cmd.Err == "" {
		outcome = "ok"
		for _, name := range names {
			passed := false
			for _, p := range w.Target(name).ProbeLog() {
				if p.Start >= cmd.Issue && p.Passed(c01ProbeTO) && p.End <= cmd.Ret+Eps {
					passed = true
				}
			}
			if !passed {
				run.Violate("success-without-a-passed-probe:same-targets", fmt.Sprintf("redeploy onto the targets the service already had (issued %v, returned ok at %v): %s answered no probe successfully between issue and return", cmd.Issue, cmd.Ret, name), sc, func() []string { return w.Trace(300) })
				return
			}
		}
	} else if sc.BadFor >= 0 && time.Duration(sc.BadFor+1)*c01Interval+Eps < sc.DeployTO {
		run.Violate("failed-although-targets-recovered:same-targets", fmt.Sprintf("redeploy onto the same targets failed (%s) although every target passes its probes again from probe %d on and the deploy timeout is %v", cmd.Err, sc.BadFor+1, sc.DeployTO), sc, func() []string { return w.Trace(300) })
		return
	}
	run.Class(fmt.Sprintf("same-targets|n%d|rollout=%v|bad=%d|to=%v|%s", sc.NT, sc.Rollout, sc.BadFor, sc.DeployTO, outcome))
}

func c01Run(t *testing.T, run *Run, sc c01Scenario) {
	w := NewWorld(t, WorldOpt{})
	defer w.Close()
	to := DefTO
	to.HealthCheckConfig.Interval = c01Interval
	to.HealthCheckConfig.Timeout = c01ProbeTO
	if sc.HCPath != "" {
		to.HealthCheckConfig.Path = sc.HCPath
		w.AddTarget("probe-sink:80", nil)
	}
	const svc = "svc"
	for _, o := range sc.Old {
		w.AddTarget(o, nil)
	}
	newNames := []string{}
	isNew := map[string]bool{}
	for _, nt := range sc.New {
		w.AddTarget(nt.Name, nt.script())
		newNames = append(newNames, nt.Name)
		isNew[nt.Name] = true
	}
	r1 := []string{fmt.Sprintf("r1g%d-t0:80", sc.Idx%7)}
	if len(sc.Old) > 0 {
		if c := w.Deploy(svc, sc.Old, DefSO, to, 5*time.Second, time.Second); c.Err != "" {
			run.Inconclusive("setup deploy failed: %s", c.Err)
			return
		}
	}
	cookie := ""
	if sc.Slot == "rollout" {
		cookie = "kamal-rollout=u1"
		if !sc.FirstRollout {
			w.AddTarget(r1[0], nil)
			if c := w.RolloutDeploy(svc, r1, 5*time.Second, time.Second); c.Err != "" {
				run.Inconclusive("setup rollout deploy failed: %s", c.Err)
				return
			}
			if c := w.RolloutSet(svc, 100, nil); c.Err != "" {
				run.Inconclusive("setup rollout set failed: %s", c.Err)
				return
			}
		}
	}

	// client stream
	var stop atomic.Bool
	w.At(time.Second, func() {
		for k := 0; !stop.Load(); k++ {
			w.SleepUntil(time.Second + time.Duration(k)*100*time.Millisecond + OffArrival)
			id := fmt.Sprintf("r%d", k)
			req := Req{ID: id, Host: "c01.example", Path: "/x"}
			if cookie != "" {
				req.Hdr = [][2]string{{"Cookie", cookie}}
			}
			w.WG.Add(1)
			go func() { defer w.WG.Done(); w.Do(req) }()
		}
	})

	// the gate: closed at 1.5s (the stream is running), before the command is issued
	var gateCmd, resumeCmd *CmdRec
	var gmu sync.Mutex
	if sc.Gate != "" {
		w.SleepUntil(1500 * time.Millisecond)
		if sc.Gate == "stopped" {
			gateCmd = w.Stop(svc, time.Second, "down for maintenance")
		} else {
			gateCmd = w.Pause(svc, time.Second, 30*time.Minute) // far beyond the scenario: a held request waits for the resume
		}
		if gateCmd.Err != "" || gateCmd.Panic != "" {
			stop.Store(true)
			w.Wait()
			run.Inconclusive("setup %s failed: %s%s", sc.Gate, gateCmd.Err, gateCmd.Panic)
			return
		}
	}
	w.SleepUntil(2 * time.Second)
	if sc.Gate != "" && sc.Resume == "mid" {
		at := 2*time.Second + min(sc.DeployTO/2, 2500*time.Millisecond) + OffArrival
		w.At(at, func() {
			c := w.Resume(svc)
			gmu.Lock()
			resumeCmd = c
			gmu.Unlock()
		})
	}
	var cmd *CmdRec
	if sc.Slot == "rollout" {
		cmd = w.RolloutDeploy(svc, newNames, sc.DeployTO, time.Second)
	} else {
		cmd = w.Deploy(svc, newNames, DefSO, to, sc.DeployTO, time.Second)
	}
	if sc.Slot == "rollout" && sc.FirstRollout && cmd.Err == "" {
		w.RolloutSet(svc, 100, nil)
	}
	if sc.Gate != "" && sc.Resume != "mid" {
		time.Sleep(700 * time.Millisecond)
		c := w.Resume(svc)
		gmu.Lock()
		resumeCmd = c
		gmu.Unlock()
	}
	time.Sleep(5 * c01Interval) // (a "mid" resume is at most 2.5s after the issue: it has happened by the end of this)
	stop.Store(true)
	w.Wait()
	gmu.Lock()
	resumed := resumeCmd
	gmu.Unlock()
	if sc.Gate != "" && (resumed == nil || resumed.Err != "" || resumed.Panic != "") {
		run.Inconclusive("the %s service was not resumed: %+v", sc.Gate, resumed)
		return
	}

	// ---------- oracle ----------
	run.Eval()
	fail := func(sig, format string, a ...any) {
		what := fmt.Sprintf(format, a...)
		if sc.Gate != "" {
			sig += ":into-" + sc.Gate + "-service"
			what += fmt.Sprintf(" [the service was %s at %v, the command was issued at %v and returned at %v, the service was resumed at %v]", sc.Gate, gateCmd.Ret, cmd.Issue, cmd.Ret, resumed.Ret)
		}
		run.Violate(sig, what, sc, func() []string { return w.Trace(400) })
	}
	if cmd.Panic != "" {
		fail("panic", "command panicked: %s", cmd.Panic)
		return
	}
	// firstGood per new target, from the targets' own logs
	allGood := true
	var maxGood time.Duration
	for _, name := range newNames {
		fg := time.Duration(-1)
		for _, p := range w.Target(name).ProbeLog() {
			if p.Passed(c01ProbeTO) {
				fg = p.End
				break
			}
		}
		if fg < 0 {
			allGood = false
		} else if fg > maxGood {
			maxGood = fg
		}
		run.Count("probes_observed", len(w.Target(name).ProbeLog()))
	}
	deadline := cmd.Issue + sc.DeployTO
	ok := cmd.Err == ""
	// (1) no client request at a new target before every new target had an accepted 2xx probe
	nNewReqs := 0
	for _, name := range newNames {
		for _, q := range w.Target(name).ReqLog() {
			nNewReqs++
			if !allGood {
				fail("traffic-before-all-healthy", "client request %s reached new target %s at %v although some new target never passed a probe", q.ID, name, q.Recv)
				return
			}
			if q.Recv < maxGood {
				fail("traffic-before-all-healthy", "client request %s reached new target %s at %v, before the last first-success probe at %v", q.ID, name, q.Recv, maxGood)
				return
			}
			if !ok {
				fail("traffic-after-failed-deploy", "deploy reported failure (%s) but client request %s reached new target %s at %v", cmd.Err, q.ID, name, q.Recv)
				return
			}
		}
	}
	run.Count("client_requests_at_new_targets", nNewReqs)
	// (2) success iff all first-successes fall within the deploy timeout (ties excluded)
	tie := allGood && absDur(maxGood-deadline) < 2*Eps
	if tie {
		run.Count("ties_skipped", 1)
	} else {
		want := allGood && maxGood < deadline
		if ok != want {
			fail("verdict-mismatch", "deploy returned err=%q but allGood=%v lastFirstSuccess=%v deadline=%v", cmd.Err, allGood, maxGood, deadline)
			return
		}
	}
	// (3)/(4) who answered the client stream
	resps := w.RespLog()
	run.Count("client_requests", len(resps))
	oldSet := map[string]bool{}
	for _, o := range sc.Old {
		oldSet[o] = true
	}
	if sc.Slot == "rollout" && !sc.FirstRollout {
		oldSet = map[string]bool{r1[0]: true}
	}
	// while the gate is closed the service answers nobody from any target: a request that may have met
	// the closed gate of a stopped service gets the gate's 503 (one that met a paused service's gate
	// is held and answered after the resume, by whatever the service answers from then). That is the
	// gate's business, not this property's; everything else is judged as without a gate, and the
	// "now the new targets answer" clause counts from the later of return and resume.
	metGate := func(r Resp) bool {
		return sc.Gate != "" && r.Sent >= gateCmd.Issue-Eps && r.Sent <= resumed.Ret+Eps
	}
	effective := cmd.Ret
	if sc.Gate != "" && resumed.Ret > effective {
		effective = resumed.Ret
	}
	nGate := 0
	for _, r := range resps {
		if sc.Gate == "stopped" && metGate(r) && r.Status == 503 && r.Target == "" {
			nGate++
			continue
		}
		if !ok {
			// failed: service keeps answering from what it had before (or stays absent)
			if len(sc.Old) == 0 {
				if r.Status != 404 {
					fail("failed-deploy-changed-routing", "service was new and deploy failed, yet request %s got %d target=%s", r.ID, r.Status, r.Target)
					return
				}
			} else if r.Status != 200 || !oldSet[r.Target] {
				fail("failed-deploy-changed-routing", "deploy failed, yet request %s got status %d target=%q (expected one of the previous targets)", r.ID, r.Status, r.Target)
				return
			}
		} else if r.Sent > effective+6*Eps && r.Status == 200 && !isNew[r.Target] {
			if sc.Slot == "rollout" && sc.FirstRollout && r.Sent < cmd.Ret+700*time.Millisecond {
				continue
			}
			fail("no-effect", "deploy succeeded at %v but request %s sent at %v was still answered by %q", cmd.Ret, r.ID, r.Sent, r.Target)
			return
		}
	}
	if sc.Gate != "" {
		run.Count("client_requests_refused_by_the_closed_gate", nGate)
	}
	outcome := "ok"
	if !ok {
		outcome = "failed"
	}
	if c := sc.class(outcome); c != "" {
		run.Class(c)
	}
	run.Sample(map[string]any{"scenario": sc, "deploy_err": cmd.Err, "issue": cmd.Issue.String(), "ret": cmd.Ret.String(), "last_first_success": maxGood.String(), "all_good": allGood, "client_requests": len(resps), "requests_at_new": nNewReqs})
}
