package verifharness

// C05 No two services ever own the same host and path.

import (
	"fmt"
	"hash/fnv"
	"math/rand/v2"
	"sort"
	"strings"
	"sync"
	"sync/atomic"
	"testing"
	"testing/synctest"
	"time"

	"github.com/anishathalye/porcupine"
	"github.com/basecamp/kamal-proxy/internal/server"
)

var (
	c05Hosts    = []string{"a.com", "*.a.com", "b.com", ""}
	c05Prefixes = []string{"/", "/api", "/api/v1", "/a", "/a/b", "/docs", "/docs/v2"}
	c05Names    = []string{"s0", "s1", "s2", "s3"}
)

type c05Op struct {
	Kind     string   `json:"kind"` // deploy remove lookup
	Name     string   `json:"name,omitempty"`
	Hosts    []string `json:"hosts,omitempty"`
	Prefixes []string `json:"prefixes,omitempty"`
	Host     string   `json:"host,omitempty"`
	Path     string   `json:"path,omitempty"`
	Client   int      `json:"client"`
}

type c05Scenario struct {
	Idx        int     `json:"idx"`
	Race       int     `json:"race_rounds,omitempty"` // racing rounds: k deploys released together at the install step
	Concurrent bool    `json:"concurrent"`
	Mixed      bool    `json:"mixed_host_lists,omitempty"` // host lists drawn from all of c05Hosts at once: the no-host default next to named / wildcard hosts
	Clients    int     `json:"clients"`
	Ops        []c05Op `json:"ops"`
}

func c05GenOp(rng *rand.Rand, lookups bool) c05Op {
	k := rng.IntN(10)
	switch {
	case k < 6:
		op := c05Op{Kind: "deploy", Name: pick(rng, c05Names)}
		if rng.IntN(4) == 0 {
			op.Hosts = []string{""}
		} else {
			for _, i := range rng.Perm(3)[:1+rng.IntN(2)] {
				op.Hosts = append(op.Hosts, c05Hosts[i])
			}
		}
		np := 1 + rng.IntN(2)
		if rng.IntN(4) == 0 {
			np = pick(rng, []int{3, 5, 6, 7}) // lists of these lengths leave spare capacity in a slice grown by append
		}
		for _, i := range rng.Perm(len(c05Prefixes))[:np] {
			op.Prefixes = append(op.Prefixes, c05Prefixes[i])
		}
		return op
	case k < 8 || !lookups:
		return c05Op{Kind: "remove", Name: pick(rng, c05Names)}
	}
	return c05Op{Kind: "lookup", Host: pick(rng, []string{"a.com", "x.a.com", "b.com", "c.com"}), Path: pick(rng, []string{"/", "/api", "/api/v1/x", "/other", "/a/b/c", "/docs", "/docs/v2/x", "/a"})}
}

func c05Gen(rng *rand.Rand, idx int) c05Scenario {
	sc := c05Scenario{Idx: idx, Concurrent: idx%2 == 1}
	if idx%4 == 3 {
		sc.Race, sc.Clients = 80, 2+rng.IntN(3)
		return sc
	}
	if sc.Concurrent {
		sc.Clients = 2 + rng.IntN(5)
		n := 8 + rng.IntN(28)
		for i := 0; i < n; i++ {
			op := c05GenOp(rng, true)
			op.Client = rng.IntN(sc.Clients)
			sc.Ops = append(sc.Ops, op)
		}
	} else {
		sc.Clients = 1
		n := 10 + rng.IntN(25)
		for i := 0; i < n; i++ {
			sc.Ops = append(sc.Ops, c05GenOp(rng, false))
		}
	}
	return sc
}

// c05MixedList reports whether a host list holds the no-host default together with another host.
func c05MixedList(hosts []string) bool { return len(hosts) > 1 && contains(hosts, "") }

// c05GenMixedOp: like c05GenOp, but a deploy's host list is drawn from all of c05Hosts at once, so
// that the no-host default stands next to named and wildcard hosts in one list (in any position);
// the rest are lists of named hosts only or the default alone, which meet the mixed ones in
// conflicts, moves and releases.
func c05GenMixedOp(rng *rand.Rand, lookups bool) c05Op {
	op := c05GenOp(rng, lookups)
	if op.Kind != "deploy" {
		return op
	}
	op.Hosts = nil
	switch k := rng.IntN(10); {
	case k < 5: // the default plus 1..3 others, the default at a random position
		for _, i := range rng.Perm(3)[:1+rng.IntN(3)] {
			op.Hosts = append(op.Hosts, c05Hosts[i])
		}
		at := rng.IntN(len(op.Hosts) + 1)
		op.Hosts = append(op.Hosts[:at:at], append([]string{""}, op.Hosts[at:]...)...)
	case k < 9: // named / wildcard hosts only
		for _, i := range rng.Perm(3)[:1+rng.IntN(2)] {
			op.Hosts = append(op.Hosts, c05Hosts[i])
		}
	default:
		op.Hosts = []string{""}
	}
	if rng.IntN(3) > 0 { // short prefix lists with "/" in most of them, so that lists meet often
		op.Prefixes = [][]string{{"/"}, {"/", "/api"}, {"/api"}, {"/api", "/"}}[rng.IntN(4)]
	}
	return op
}

// c05GenMixed: the three scenario kinds of c05Gen (sequential history, concurrent history, racing
// rounds) over host lists that mix the no-host default with named hosts.
func c05GenMixed(rng *rand.Rand, idx, j int) c05Scenario {
	sc := c05Scenario{Idx: idx, Mixed: true, Concurrent: j%2 == 1}
	if j%4 == 3 {
		sc.Race, sc.Clients = 40, 2+rng.IntN(3)
		return sc
	}
	if sc.Concurrent {
		sc.Clients = 2 + rng.IntN(4)
		n := 8 + rng.IntN(22)
		for i := 0; i < n; i++ {
			op := c05GenMixedOp(rng, true)
			op.Client = rng.IntN(sc.Clients)
			sc.Ops = append(sc.Ops, op)
		}
	} else {
		sc.Clients = 1
		n := 8 + rng.IntN(20)
		for i := 0; i < n; i++ {
			sc.Ops = append(sc.Ops, c05GenMixedOp(rng, false))
		}
	}
	return sc
}

// ---- sequential ownership model ----

type c05State map[string]c04Service // name -> bindings

func (s c05State) key() string {
	var parts []string
	for n, v := range s {
		h := append([]string{}, v.Hosts...)
		p := append([]string{}, v.Prefixes...)
		sort.Strings(h)
		sort.Strings(p)
		parts = append(parts, n+"="+strings.Join(h, ",")+"|"+strings.Join(p, ","))
	}
	sort.Strings(parts)
	return strings.Join(parts, ";")
}

func (s c05State) clone() c05State {
	o := c05State{}
	for k, v := range s {
		o[k] = v
	}
	return o
}

func (s c05State) services() []c04Service {
	var out []c04Service
	for _, v := range s {
		out = append(out, v)
	}
	return out
}

// apply returns whether the operation must succeed, and the new state.
func (s c05State) apply(op c05Op) (bool, c05State) {
	switch op.Kind {
	case "deploy":
		cand := c04Service{Name: op.Name, Hosts: op.Hosts, Prefixes: op.Prefixes}
		for n, o := range s {
			if n != op.Name && c04Conflicts(cand, o) {
				return false, s
			}
		}
		ns := s.clone()
		ns[op.Name] = cand
		return true, ns
	case "remove":
		if _, ok := s[op.Name]; !ok {
			return false, s
		}
		ns := s.clone()
		delete(ns, op.Name)
		return true, ns
	}
	return true, s
}

type c05Out struct {
	OK   bool
	Name string // lookup result
}

var c05Model = porcupine.Model{
	Init: func() any { return c05State{} },
	Step: func(st, in, out any) (bool, any) {
		s, op, o := st.(c05State), in.(c05Op), out.(c05Out)
		if op.Kind == "lookup" {
			return refRoute(s.services(), op.Host, op.Path) == o.Name, s
		}
		want, ns := s.apply(op)
		if want != o.OK {
			return false, s
		}
		return true, ns
	},
	Equal: func(a, b any) bool { return a.(c05State).key() == b.(c05State).key() },
	DescribeOperation: func(in, out any) string {
		return fmt.Sprintf("%+v -> %+v", in, out)
	},
}

func TestC05(t *testing.T) {
	run := NewRun(t, "C05")
	defer run.Finish()
	n := run.N(400, 16000)
	for i := 0; i < n; i++ {
		sc := c05Gen(run.Rand(i), i)
		if !run.Mine(i, sc) {
			continue
		}
		synctest.Test(t, func(t *testing.T) { c05Run(t, run, sc, run.Rand(i+1<<30)) })
	}
	for k := 0; k < run.N(24, 600); k++ {
		desc := map[string]any{"idx": k, "kind": "slow-command-overlapping-a-host-move"}
		if !run.Mine(n+k, desc) {
			continue
		}
		synctest.Test(t, func(t *testing.T) { c05Overlap(t, run, k, run.Rand(n+k)) })
	}
	// host lists mixing the no-host default with named / wildcard hosts: every listed host is a pair
	// of its own, whatever stands next to it in the list
	base := n + run.N(24, 600)
	for j := 0; j < run.N(160, 6000); j++ {
		sc := c05GenMixed(run.Rand(base+j), base+j, j)
		if !run.Mine(base+j, sc) {
			continue
		}
		synctest.Test(t, func(t *testing.T) { c05Run(t, run, sc, run.Rand(base+j+1<<30)) })
	}
}

// c05Overlap: a command on service A that waits long for its targets (a rollout deploy, or a deploy
// that keeps A's hosts) overlaps two quick deploys: A moves from host X to host Y, then B claims X.
// When everything has returned every pair has exactly one owner: what answers for X, for Y, and
// what a further deploy claiming X or Y is told must agree with the results the commands reported.
func c05Overlap(t *testing.T, run *Run, idx int, rng *rand.Rand) {
	w := NewWorld(t, WorldOpt{})
	defer w.Close()
	run.Eval()
	fail := func(sig, format string, a ...any) {
		run.Violate(sig, fmt.Sprintf(format, a...), map[string]any{"idx": idx, "kind": "overlap"}, func() []string { return w.Trace(200) })
	}
	X, Y := "x.example", "y.example"
	pfx := pick(rng, [][]string{nil, {"/api"}, {"/", "/api"}})
	slowKind := pick(rng, []string{"rollout-deploy", "rollout-deploy", "deploy-same-hosts"})
	slow := func(name string) {
		w.AddTarget(name, func(n int, at time.Duration) ProbeAct {
			if n == 0 {
				return ProbeAct{Status: 200, Delay: 1500 * time.Millisecond}
			}
			return ProbeAct{Status: 200}
		})
	}
	for _, n := range []string{"a0:80", "a1:80", "b0:80", "c0:80"} {
		w.AddTarget(n, nil)
	}
	slow("as:80")
	so := func(h string) server.ServiceOptions {
		return server.ServiceOptions{TLSRedirect: true, Hosts: []string{h}, PathPrefixes: pfx}
	}
	if c := w.Deploy("A", []string{"a0:80"}, so(X), DefTO, 5*time.Second, time.Second); c.Err != "" {
		run.Inconclusive("setup: %s", c.Err)
		return
	}
	var slowRec, moveRec, claimRec *CmdRec
	T := time.Second
	w.At(T, func() {
		if slowKind == "rollout-deploy" {
			slowRec = w.RolloutDeploy("A", []string{"as:80"}, 5*time.Second, time.Second)
		} else {
			slowRec = w.Deploy("A", []string{"as:80"}, so(X), DefTO, 5*time.Second, time.Second)
		}
	})
	w.At(T+300*time.Millisecond, func() { moveRec = w.Deploy("A", []string{"a1:80"}, so(Y), DefTO, 5*time.Second, time.Second) })
	claim := rng.IntN(3) != 0 // otherwise nobody takes X after A has left it
	if claim {
		w.At(T+600*time.Millisecond, func() { claimRec = w.Deploy("B", []string{"b0:80"}, so(X), DefTO, 5*time.Second, time.Second) })
	} else {
		claimRec = &CmdRec{Name: "not-issued", Done: true}
	}
	w.Wait()
	if slowRec == nil || moveRec == nil || claimRec == nil {
		run.Inconclusive("commands did not complete")
		return
	}
	for _, c := range []*CmdRec{slowRec, moveRec, claimRec} {
		if c.Panic != "" {
			fail("panic", "%s panicked: %s", c.Name, c.Panic)
			return
		}
	}
	if moveRec.Err != "" {
		fail("move-rejected", "deploy A --host %s (while a %s of A was waiting for its targets) failed: %s", Y, slowKind, moveRec.Err)
		return
	}
	if claimRec.Err != "" {
		fail("free-pair-refused", "deploy B --host %s after A had moved to %s was refused: %s", X, Y, claimRec.Err)
		return
	}
	// B was told it owns X. Who owns what now is decided by what a further claimant is told:
	path := "/"
	if len(pfx) > 0 {
		path = pfx[len(pfx)-1] + "/q"
	}
	owner := func(h string) string {
		r := w.Do(Req{ID: "own-" + h, Host: h, Path: path})
		if r.Status == 200 {
			return r.Target
		}
		return fmt.Sprintf("status %d", r.Status)
	}
	ox, oy := owner(X), owner(Y)
	if slowKind == "rollout-deploy" && slowRec.Err != "" {
		fail("rollout-deploy-refused", "rollout deploy of A (healthy targets; it claims no host) failed while A moved from %s to %s: %s", X, Y, slowRec.Err)
		return
	}
	if !claim {
		// A moved to Y and that was acknowledged. The slow command was issued with the old host list:
		// a rollout deploy has no host list, so A stays on Y and X is nobody's; a deploy with the
		// old list that returns ok moves A back (then X is A's and Y nobody's) - both sets are fine,
		// each pair has one owner and routing agrees with the last acknowledged bindings
		wantX, wantY := "status 404", "a"
		if slowKind == "deploy-same-hosts" && slowRec.Err == "" {
			wantX, wantY = "a", "status 404"
		}
		if !strings.HasPrefix(ox, wantX) || !strings.HasPrefix(oy, wantY) {
			fail("bindings-of-an-earlier-copy", "A moved from %s to %s (acknowledged at %v); the overlapping %s returned at %v (err=%q); now %s is answered by %q and %s by %q", X, Y, moveRec.Ret, slowKind, slowRec.Ret, slowRec.Err, X, ox, Y, oy)
			return
		}
		run.Class(fmt.Sprintf("overlap-no-claim|%s|pfx%d|slow-err=%v", slowKind, len(pfx), slowRec.Err != ""))
		return
	}
	if ox != "b0:80" {
		fail("two-owners:routing", "after A moved to %s and B was told it owns %s (a %s of A overlapping both has returned: err=%q), requests for %s are answered by %q", Y, X, slowKind, slowRec.Err, X, ox)
		return
	}
	cx := w.Deploy("C", []string{"c0:80"}, so(X), DefTO, 5*time.Second, time.Second)
	if cx.Err == "" {
		fail("accepted-conflicting-deploy:after-overlap", "deploy C --host %s accepted although B owns it", X)
		return
	}
	// Y: owned by A unless the slow command was a deploy with A's old host list that won the race
	// for the last word (then A legitimately moved back; X is B's, so that deploy must have failed)
	if slowKind == "deploy-same-hosts" && slowRec.Err == "" {
		fail("accepted-conflicting-deploy:slow", "deploy A --host %s returned ok at %v although B had been told it owns %s at %v", X, slowRec.Ret, X, claimRec.Ret)
		return
	}
	if !strings.HasPrefix(oy, "a") {
		fail("owner-lost-its-pair", "A moved to %s (acknowledged) but requests for it are answered by %q", Y, oy)
		return
	}
	// A's list must show one service per pair
	seen := map[string]string{}
	for name, d := range w.Router.ListActiveServices() {
		for _, h := range strings.Split(d.Host, ",") {
			for _, p := range strings.Split(d.Path, ",") {
				if other, dup := seen[h+"|"+p]; dup {
					fail("two-owners:list", "list shows %s %s owned by both %s and %s", h, p, other, name)
					return
				}
				seen[h+"|"+p] = name
			}
		}
	}
	run.Class(fmt.Sprintf("overlap|%s|pfx%d|slow-err=%v", slowKind, len(pfx), slowRec.Err != ""))
}

func c05Exec(w *World, op c05Op, id string) c05Out {
	switch op.Kind {
	case "deploy":
		// the operator may spell a prefix with or without leading and trailing slashes: the same pair
		var spelled []string
		for i, p := range op.Prefixes {
			h := fnv.New32a()
			fmt.Fprint(h, op.Name, op.Hosts, p, i, id)
			t := strings.Trim(p, "/")
			switch v := h.Sum32() % 5; {
			case p == "/":
				spelled = append(spelled, []string{"/", "", "//", "/", "/"}[v])
			case v == 1:
				spelled = append(spelled, t)
			case v == 2:
				spelled = append(spelled, "/"+t+"/")
			case v == 3:
				spelled = append(spelled, t+"/")
			default:
				spelled = append(spelled, p)
			}
		}
		so := server.ServiceOptions{TLSRedirect: true, Hosts: op.Hosts, PathPrefixes: spelled}
		if len(op.Hosts) == 1 && op.Hosts[0] == "" {
			so.Hosts = nil
		}
		c := w.Deploy(op.Name, []string{"svc-" + op.Name + ":80"}, so, DefTO, 5*time.Second, time.Second)
		if c.Panic != "" {
			return c05Out{Name: "PANIC " + c.Panic}
		}
		if c.Err != "" && !strings.Contains(c.Err, "conflict") {
			return c05Out{Name: "ERR " + c.Err}
		}
		return c05Out{OK: c.Err == ""}
	case "remove":
		c := w.Remove(op.Name)
		if c.Panic != "" {
			return c05Out{Name: "PANIC " + c.Panic}
		}
		return c05Out{OK: c.Err == ""}
	}
	r := w.Do(Req{ID: id, Host: op.Host, Path: op.Path})
	if r.Status == 200 && strings.HasPrefix(r.Target, "svc-") {
		return c05Out{OK: true, Name: strings.TrimSuffix(strings.TrimPrefix(r.Target, "svc-"), ":80")}
	}
	if r.Status == 404 {
		return c05Out{OK: true}
	}
	return c05Out{Name: fmt.Sprintf("!status=%d", r.Status)}
}

func c05Run(t *testing.T, run *Run, sc c05Scenario, rng *rand.Rand) {
	w := NewWorld(t, WorldOpt{})
	defer w.Close()
	run.Eval()
	for _, n := range c05Names {
		w.AddTarget("svc-"+n+":80", nil)
	}
	fail := func(sig, format string, a ...any) {
		run.Violate(sig, fmt.Sprintf(format, a...), sc, func() []string { return w.Trace(120) })
	}
	if sc.Race > 0 {
		c05Race(w, run, sc, fail)
		return
	}
	if !sc.Concurrent {
		st := c05State{}
		conflicts, moves := 0, 0
		mixedOK, mixedConf := 0, 0 // deploys of a mixed list accepted; deploys refused over a pair held by a service with a mixed list
		for i, op := range sc.Ops {
			want, ns := st.apply(op)
			if op.Kind == "deploy" && want && c05MixedList(op.Hosts) {
				mixedOK++
			}
			if op.Kind == "deploy" && !want {
				cand := c04Service{Name: op.Name, Hosts: op.Hosts, Prefixes: op.Prefixes}
				for n, o := range st {
					if n != op.Name && c05MixedList(o.Hosts) && c04Conflicts(cand, o) {
						mixedConf++
						break
					}
				}
			}
			got := c05Exec(w, op, fmt.Sprintf("l%d", i))
			if got.Name != "" {
				fail("unexpected-result", "step %d %+v: %s", i, op, got.Name)
				return
			}
			if got.OK != want {
				sig := "accepted-conflicting-deploy"
				if want {
					sig = "rejected-free-" + op.Kind
				}
				fail(sig, "step %d %+v returned ok=%v; ownership before the step: %s", i, op, got.OK, st.key())
				return
			}
			if op.Kind == "deploy" && !want {
				conflicts++
			}
			if op.Kind == "deploy" && want {
				if _, had := st[op.Name]; had {
					moves++
				}
			}
			st = ns
			// list and routing must agree with the ownership map
			list := w.Router.ListActiveServices()
			if len(list) != len(st) {
				fail("list-mismatch", "after step %d %+v: list has %d services, ownership map has %d (%s)", i, op, len(list), len(st), st.key())
				return
			}
			for name, s := range st {
				d, ok := list[name]
				h := strings.Join(s.Hosts, ",")
				if h == "" {
					h = "*"
				}
				if !ok || d.Host != h || d.Path != strings.Join(s.Prefixes, ",") {
					fail("list-mismatch", "after step %d: service %s listed as host=%q path=%q, expected %q %q", i, name, d.Host, d.Path, h, strings.Join(s.Prefixes, ","))
					return
				}
			}
			for _, h := range []string{"a.com", "x.a.com", "b.com", "c.com"} {
				for _, p := range []string{"/", "/api", "/api/v1/x", "/a/b/c", "/docs/v2/x", "/a"} {
					o := c05Exec(w, c05Op{Kind: "lookup", Host: h, Path: p}, fmt.Sprintf("m%d", i))
					if want := refRoute(st.services(), h, p); o.Name != want {
						fail("routing-disagrees-with-ownership", "after step %d %+v: Host %s path %s answered by %q, owner is %q (%s)", i, op, h, p, o.Name, want, st.key())
						return
					}
				}
			}
		}
		run.Count("sequential_steps", len(sc.Ops))
		if sc.Mixed {
			run.Count("mixed_list_deploys_accepted", mixedOK)
			run.Count("deploys_refused_over_a_pair_of_a_mixed_list", mixedConf)
			run.Class(fmt.Sprintf("mixed-seq|mixed-deploys=%d|refused-over-mixed=%d|moves=%v", min(mixedOK, 4), min(mixedConf, 3), moves > 0))
		} else if conflicts > 0 || moves > 0 {
			run.Class(fmt.Sprintf("seq|conflicts=%d|moves=%d|n=%d", min(conflicts, 6), min(moves, 6), len(sc.Ops)/10))
		}
		run.Sample(map[string]any{"scenario": sc, "conflicts": conflicts, "moves": moves})
		return
	}
	// concurrent history: logical clock at the client boundary, jitter at the deploy hooks
	var clock atomic.Int64
	var mu sync.Mutex
	var hist []porcupine.Operation
	jit := func(string, int) time.Duration { return 0 }
	_ = jit
	seeds := make([]uint64, 64)
	for i := range seeds {
		seeds[i] = rng.Uint64()
	}
	var hn atomic.Int64
	for _, p := range []string{"deploy.healthy", "deploy.lb.updated", "deploy.installed"} {
		w.PointDelay[p] = func(name string, n int) time.Duration {
			k := hn.Add(1)
			return time.Duration(seeds[int(k)%len(seeds)]%5) * (Step + OffHook)
		}
	}
	byClient := map[int][]c05Op{}
	for _, op := range sc.Ops {
		byClient[op.Client] = append(byClient[op.Client], op)
	}
	for cl, ops := range byClient {
		cl, ops := cl, ops
		w.At(time.Duration(cl)*Step, func() {
			for i, op := range ops {
				call := clock.Add(1)
				out := c05Exec(w, op, fmt.Sprintf("c%d-%d", cl, i))
				ret := clock.Add(1)
				mu.Lock()
				hist = append(hist, porcupine.Operation{ClientId: cl, Input: op, Call: call, Output: out, Return: ret})
				mu.Unlock()
				time.Sleep(time.Duration(seeds[(cl*7+i)%len(seeds)]%3) * Step)
			}
		})
	}
	w.Wait()
	overlaps := 0
	for i := range hist {
		if o := hist[i].Output.(c05Out); o.Name != "" && hist[i].Input.(c05Op).Kind != "lookup" {
			fail("unexpected-result", "%+v: %s", hist[i].Input, o.Name)
			return
		}
		for j := range hist {
			if i < j && hist[i].Call < hist[j].Return && hist[j].Call < hist[i].Return && hist[i].Input.(c05Op).Kind == "deploy" && hist[j].Input.(c05Op).Kind == "deploy" {
				overlaps++
			}
		}
	}
	res, info := porcupine.CheckOperationsVerbose(c05Model, hist, 60*time.Second)
	_ = info
	switch res {
	case porcupine.Unknown:
		run.Inconclusive("porcupine timed out on a history of %d operations", len(hist))
		return
	case porcupine.Illegal:
		var lines []string
		sort.Slice(hist, func(i, j int) bool { return hist[i].Call < hist[j].Call })
		for _, h := range hist {
			lines = append(lines, fmt.Sprintf("client %d [%d,%d] %+v -> %+v", h.ClientId, h.Call, h.Return, h.Input, h.Output))
		}
		run.Violate("not-linearizable", fmt.Sprintf("no sequential order of the %d concurrent deploy/remove/lookup operations explains their results", len(hist)), sc, lines)
		return
	}
	// final state must be explainable too: nothing owned twice in what the router lists
	seen := map[string]string{}
	for name, d := range w.Router.ListActiveServices() {
		for _, h := range strings.Split(d.Host, ",") {
			if h == "*" {
				h = "" // how list prints the no-host default when it is the only host
			}
			for _, p := range strings.Split(d.Path, ",") {
				if o, dup := seen[h+" "+p]; dup {
					fail("pair-owned-twice", "after the concurrent history both %s and %s own host %q path %q", o, name, h, p)
					return
				}
				seen[h+" "+p] = name
			}
		}
	}
	run.Count("concurrent_ops", len(hist))
	run.Count("overlapping_deploy_pairs", overlaps)
	if sc.Mixed {
		mixed := 0
		for i := range hist {
			if op := hist[i].Input.(c05Op); op.Kind == "deploy" && c05MixedList(op.Hosts) && hist[i].Output.(c05Out).OK {
				mixed++
			}
		}
		run.Count("mixed_list_deploys_accepted", mixed)
		run.Class(fmt.Sprintf("mixed-conc|clients=%d|overlaps=%d|mixed-deploys=%d", sc.Clients, min(overlaps/4, 3)*4, min(mixed, 4)))
	} else if overlaps > 0 {
		run.Class(fmt.Sprintf("conc|clients=%d|overlaps=%d|n=%d", sc.Clients, min(overlaps, 20), len(hist)/8))
	}
	run.Sample(map[string]any{"clients": sc.Clients, "ops": len(hist), "overlapping_deploy_pairs": overlaps})
}

// c05Race: k deploys by different services claiming the same pair are held at the hook just
// before the install step and released together, so that their install steps run in parallel.
// Exactly one must win; the router must list exactly one owner.
func c05Race(w *World, run *Run, sc c05Scenario, fail func(sig, format string, a ...any)) {
	k := sc.Clients
	// mixed rounds: every racer lists a.com (so all claim the pair a.com /), next to other hosts
	// that differ from racer to racer: the default before or after it, a wildcard, another name
	variants := [][]string{{"a.com"}, {"", "a.com"}, {"*.a.com", "a.com"}, {"a.com", ""}, {"a.com", "b.com"}, {"b.com", "", "a.com"}}
	for round := 0; round < sc.Race; round++ {
		var mu sync.Mutex
		arrived := 0
		gate := make(chan struct{})
		w.mu.Lock()
		w.OnHook = func(h HookRec) {
			if h.Point != "deploy.healthy" {
				return
			}
			mu.Lock()
			arrived++
			if arrived == k {
				close(gate)
			}
			mu.Unlock()
			select {
			case <-gate:
			case <-w.done:
			}
		}
		w.mu.Unlock()
		results := make([]c05Out, k)
		var wg sync.WaitGroup
		for i := 0; i < k; i++ {
			wg.Add(1)
			go func() {
				defer wg.Done()
				hosts := []string{"a.com"}
				if sc.Mixed {
					hosts = variants[(round+sc.Idx+i*(1+round/len(variants)%2))%len(variants)]
				}
				results[i] = c05Exec(w, c05Op{Kind: "deploy", Name: c05Names[i], Hosts: hosts, Prefixes: []string{"/"}}, "")
			}()
		}
		wg.Wait()
		w.mu.Lock()
		w.OnHook = nil
		w.mu.Unlock()
		wins := 0
		for _, r := range results {
			if r.Name != "" {
				fail("unexpected-result", "racing deploy: %s", r.Name)
				return
			}
			if r.OK {
				wins++
			}
		}
		list := w.Router.ListActiveServices()
		if wins != 1 || len(list) != 1 {
			fail("race-not-exactly-one-winner", "round %d: %d deploys raced for host a.com path /: %d reported success, the router lists %d services", round, k, wins, len(list))
			return
		}
		for name := range list {
			w.Router.RemoveService(name)
		}
		run.Count("race_rounds", 1)
	}
	if sc.Mixed {
		run.Count("mixed_race_rounds", sc.Race)
		run.Class(fmt.Sprintf("mixed-race|k=%d", k))
		return
	}
	run.Class(fmt.Sprintf("race|k=%d", k))
}
