package verifharness

// C11 A restart changes nothing observable: original vs restored, then the same continuation.

import (
	"encoding/json"
	"fmt"
	"math/rand/v2"
	"os"
	"sort"
	"strings"
	"sync"
	"testing"
	"testing/synctest"
	"time"
)

type c11Scenario struct {
	Idx     int   `json:"idx"`
	History []Cmd `json:"history"`
	Points  []int `json:"restart_after"` // restart after command index k (0-based)
	Cont    int   `json:"continuation_len"`
	// Flaps: targets that fail their health checks for a stretch of the history (the health of a
	// target is transient, the target list of a service is configuration: a restart during such a
	// stretch, or behind a snapshot written during it, must change nothing)
	Flaps []c11Flap `json:"flaps,omitempty"`
}

// c11Flap: the named targets fail every probe (in the given way) from just before command Down
// until just before command Up (Up == len(history): they stay down to the end).
type c11Flap struct {
	Targets []string `json:"targets"`
	Mode    string   `json:"mode"` // 500 | refuse | close
	Down    int      `json:"down_before"`
	Up      int      `json:"up_before"`
}

// c11Settle: after a change of a target's health (and after a restore, which presumes every
// target healthy until its first probe - the licence) both sides are given more than the longest
// probe interval of this check (2s; failing and passing probes are answered at once) before
// anything is compared.
const c11Settle = 3 * time.Second

// downAt: the targets that are failing their probes while command i runs (and until the next
// change), with the way they fail.
func (sc c11Scenario) downAt(i int) map[string]string {
	out := map[string]string{}
	for _, f := range sc.Flaps {
		if f.Down <= i && i < f.Up {
			for _, tn := range f.Targets {
				if _, ok := out[tn]; !ok {
					out[tn] = f.Mode
				}
			}
		}
	}
	return out
}

func (sc c11Scenario) flapped() map[string]bool {
	out := map[string]bool{}
	for _, f := range sc.Flaps {
		for _, tn := range f.Targets {
			out[tn] = true
		}
	}
	return out
}

// c11Health is the scripted health of the flapping targets of one world.
type c11Health struct {
	mu   sync.Mutex
	down map[string]string
}

// set installs the health in force from command i on; reports whether anything changed.
func (h *c11Health) set(down map[string]string) bool {
	h.mu.Lock()
	defer h.mu.Unlock()
	changed := len(down) != len(h.down)
	for k, v := range down {
		if h.down[k] != v {
			changed = true
		}
	}
	h.down = down
	return changed
}

func (h *c11Health) probe(name string) func(n int, at time.Duration) ProbeAct {
	return func(n int, at time.Duration) ProbeAct {
		h.mu.Lock()
		mode, down := h.down[name]
		h.mu.Unlock()
		switch {
		case !down:
			return ProbeAct{Status: 200}
		case mode == "refuse":
			return ProbeAct{Refuse: true}
		case mode == "close":
			return ProbeAct{Close: true}
		}
		return ProbeAct{Status: 500}
	}
}

// c11FlapGen: histories in which targets of multi-target slots (active and rollout) fail their
// health checks for a while and recover, with restarts during and after the outage.
func c11FlapGen(rng *rand.Rand, idx int, thorough bool) c11Scenario {
	sc := c11Scenario{Idx: idx, Cont: 1 + rng.IntN(8)}
	g := NewCmdGen(rng)
	multi := func(svc, slot string) []string {
		for {
			if tg := g.targets(svc, slot); len(tg) > 1 {
				return tg
			}
		}
	}
	d := g.Deploy("s0")
	d.Targets = multi("s0", "a")
	g.last["s0"], g.exists["s0"] = d, true
	sc.History = append(sc.History, d)
	if rng.IntN(2) == 0 {
		g.rollout["s0"] = true
		sc.History = append(sc.History,
			Cmd{Kind: "rollout-deploy", Svc: "s0", Targets: multi("s0", "r"), DeployTO: 5 * time.Second, DrainTO: time.Second},
			Cmd{Kind: "rollout-set", Svc: "s0", Pct: pick(rng, []int{100, 50, 0}), Allow: []string{"u1", "alpha"}})
	}
	n := len(sc.History) + 1 + rng.IntN(8)
	for i := len(sc.History); i < n; i++ {
		sc.History = append(sc.History, g.Next())
	}
	// the outages: of some (or all) targets of one earlier deploy / rollout deploy each
	var cand []int
	for p, c := range sc.History[:n-1] {
		if len(c.Targets) > 0 {
			cand = append(cand, p)
		}
	}
	nf := 1 + rng.IntN(2)
	if thorough {
		nf = 1 + rng.IntN(3)
	}
	for f := 0; f < nf; f++ {
		p := pick(rng, cand)
		if f == 0 && rng.IntN(3) != 0 {
			p = cand[0] // the multi-target deploy (often still in service when the restart comes)
			if len(cand) > 1 && cand[1] == 1 && sc.History[1].Kind == "rollout-deploy" && rng.IntN(2) == 0 {
				p = 1
			}
		}
		var tg []string
		for _, tn := range sc.History[p].Targets {
			if rng.IntN(2) == 0 {
				tg = append(tg, tn)
			}
		}
		if len(tg) == 0 {
			tg = []string{pick(rng, sc.History[p].Targets)}
		}
		fl := c11Flap{Targets: tg, Mode: pick(rng, []string{"500", "500", "refuse", "close"})}
		fl.Down = p + 1 + rng.IntN(n-p-1)         // p+1 .. n-1
		fl.Up = fl.Down + 1 + rng.IntN(n-fl.Down) // Down+1 .. n
		sc.Flaps = append(sc.Flaps, fl)
	}
	if thorough {
		for k := 0; k < n; k++ {
			sc.Points = append(sc.Points, k)
		}
	} else {
		f0 := sc.Flaps[0]
		seen := map[int]bool{}
		for _, k := range []int{n - 1, rng.IntN(n), f0.Down + rng.IntN(f0.Up-f0.Down)} {
			if !seen[k] {
				seen[k] = true
				sc.Points = append(sc.Points, k)
			}
		}
		sort.Ints(sc.Points)
	}
	return sc
}

// c11MaxSlot: the largest number of targets CmdGen puts in one slot.
const c11MaxSlot = 3

// c11Spread: which targets answer when the same request is repeated (one at a time, nothing else
// in flight and no health change under way: the proxy takes the healthy targets of a slot strictly
// in turn, so as many requests as the largest slot has targets reach every target that is in
// rotation, wherever the turn stands). Keyed by host, path and rollout cookie.
func c11Spread(w *World, p *Proxy, tag string) map[string]string {
	out := map[string]string{}
	n := 0
	for _, h := range cfgReqHosts {
		for _, path := range []string{"/", "/api/c", "/app/y/z"} {
			for _, ck := range []string{"", "u1", "u3"} {
				seen := map[string]bool{}
				for i := 0; i < c11MaxSlot; i++ {
					n++
					r := Req{ID: fmt.Sprintf("%s-spread%d", tag, n), Host: h, Path: path}
					if ck != "" {
						r.Hdr = [][2]string{{"Cookie", "kamal-rollout=" + ck}}
					}
					resp := p.Do(r)
					if resp.Target == "" {
						// not routed to any target (no such service, redirect, paused, stopped, all down)
						seen[fmt.Sprintf("status %d", resp.Status)] = true
						break
					}
					seen[resp.Target] = true
				}
				var names []string
				for tn := range seen {
					names = append(names, tn)
				}
				sort.Strings(names)
				out[fmt.Sprintf("spread %s%s cookie=%s", h, path, ck)] = strings.Join(names, ",")
			}
		}
	}
	return out
}

// c11InService: how many of the given targets the saved configuration names as active and as
// rollout targets (coverage only).
func c11InService(statefile string, names map[string]string) (active, rollout int) {
	var v []struct {
		Active  []string `json:"active_targets"`
		Rollout []string `json:"rollout_targets"`
	}
	if json.Unmarshal([]byte(statefile), &v) != nil {
		return 0, 0
	}
	for _, s := range v {
		for _, tn := range s.Active {
			if _, ok := names[tn]; ok {
				active++
			}
		}
		for _, tn := range s.Rollout {
			if _, ok := names[tn]; ok {
				rollout++
			}
		}
	}
	return
}

func c11Gen(rng *rand.Rand, idx int, thorough bool) c11Scenario {
	sc := c11Scenario{Idx: idx, Cont: 1 + rng.IntN(8)}
	g := NewCmdGen(rng)
	n := 1 + rng.IntN(15)
	if idx%4 == 2 {
		// skeleton aimed at the two sides of a service having different target options: deploy,
		// rollout deploy, split, then a redeploy that changes exactly one option; restart anywhere
		d := g.Deploy("s0")
		d.Hosts, d.TLS, d.Prefixes = []string{"h0.example"}, "", nil
		g.last["s0"] = d
		g.exists["s0"], g.rollout["s0"] = true, true
		sc.History = append(sc.History, d,
			Cmd{Kind: "rollout-deploy", Svc: "s0", Targets: g.targets("s0", "r"), DeployTO: 5 * time.Second, DrainTO: time.Second},
			Cmd{Kind: "rollout-set", Svc: "s0", Pct: pick(rng, []int{100, 100, 0}), Allow: []string{"u1", "alpha"}},
			g.Tweak("s0"))
		n = len(sc.History) + rng.IntN(4)
	}
	if idx%8 == 4 {
		// skeleton: a static-certificate root service on a wildcard host and a sub-path service on
		// the same host (which inherits TLS and is saved that way)
		root := g.Deploy("s0")
		root.Hosts, root.Prefixes, root.TLS = []string{"*.wild.example"}, nil, pick(rng, []string{"static", "static-noredirect"})
		sub := g.Deploy("s1")
		sub.Hosts, sub.Prefixes, sub.TLS = []string{"*.wild.example"}, []string{"/api"}, ""
		g.last["s0"], g.last["s1"] = root, sub
		g.exists["s0"], g.exists["s1"] = true, true
		if rng.IntN(2) == 0 {
			root, sub = sub, root
		}
		sc.History = append(sc.History, root, sub)
		n = len(sc.History) + rng.IntN(4)
	}
	for i := len(sc.History); i < n; i++ {
		c := g.Next()
		if i == 0 {
			c = g.Deploy("s0")
			g.exists["s0"] = true
		}
		sc.History = append(sc.History, c)
	}
	n = len(sc.History)
	if thorough {
		for k := 0; k < n; k++ {
			sc.Points = append(sc.Points, k)
		}
	} else {
		seen := map[int]bool{}
		for _, k := range []int{n - 1, rng.IntN(n), rng.IntN(n)} {
			if !seen[k] {
				seen[k] = true
				sc.Points = append(sc.Points, k)
			}
		}
		sort.Ints(sc.Points)
	}
	return sc
}

func TestC11(t *testing.T) {
	run := NewRun(t, "C11")
	defer run.Finish()
	n := run.N(160, 4000)
	for i := 0; i < n; i++ {
		sc := c11Gen(run.Rand(i), i, run.Thorough())
		if !run.Mine(i, sc) {
			continue
		}
		synctest.Test(t, func(t *testing.T) { c11Run(t, run, sc) })
	}
	// "any sequence of commands" includes commands that overlap: the file a restart would read once
	// all of them have returned must restore the configuration then in force (the overlap scenarios
	// of C12, which place the snapshot steps of two commands between each other)
	for k := 0; k < run.N(12, 400); k++ {
		sc := c12Gen(run.Rand(n+k), 4*k+3, 1<<30, 0, 0)
		if !run.Mine(n+k, sc) {
			continue
		}
		synctest.Test(t, func(t *testing.T) { c12Sim(t, run, sc) })
	}
	// ... and sequences in which one save failed (the temporary path was unusable for a while) and
	// the operator repeated the command afterwards: the file a restart reads is current again
	for k := 0; k < run.N(24, 600); k++ {
		sc := c12Gen(run.Rand(n+1000+k), 4*k+1, 1<<30, 0, 0)
		if len(sc.History) > 1 {
			last := &sc.History[len(sc.History)-1]
			*last = Cmd{Kind: pick(run.Rand(n+2000+k), []string{"stop", "pause", "stop"}), Svc: "s0", DrainTO: time.Second, MaxPause: 700 * time.Millisecond, Msg: "closed for the evening"}
		}
		if !run.Mine(n+1000+k, sc) {
			continue
		}
		synctest.Test(t, func(t *testing.T) { c12Sim(t, run, sc) })
	}
	// ... and histories during which targets fail their health checks for a while: the outage of a
	// target is not configuration, so a restart during it (or behind a snapshot written during it)
	// restores the same targets, which are probed, listed and put back in rotation as on the original
	for k := 0; k < run.N(40, 1000); k++ {
		sc := c11FlapGen(run.Rand(n+3000+k), n+3000+k, run.Thorough())
		if !run.Mine(n+3000+k, sc) {
			continue
		}
		synctest.Test(t, func(t *testing.T) { c11Run(t, run, sc) })
	}
}

// probeView: what the targets see of the health-check settings (path and cadence), per target,
// over the probes that started in [from, to).
func probeView(w *World, from, to time.Duration) map[string]string {
	out := map[string]string{}
	w.mu.Lock()
	tg := make([]*FakeTarget, 0, len(w.Targets))
	for _, t := range w.Targets {
		tg = append(tg, t)
	}
	w.mu.Unlock()
	for _, ft := range tg {
		var starts []time.Duration
		path := ""
		for _, p := range ft.ProbeLog() {
			if p.Start >= from && p.Start < to {
				starts = append(starts, p.Start)
				path = p.Path
			}
		}
		if len(starts) < 2 {
			continue
		}
		gap := (starts[len(starts)-1] - starts[0]) / time.Duration(len(starts)-1)
		out["probe/"+ft.Name] = fmt.Sprintf("path=%s interval=%v", path, gap.Round(100*time.Millisecond))
	}
	return out
}

func c11Run(t *testing.T, run *Run, sc c11Scenario) {
	run.Eval()
	type stage struct {
		rec   CmdRec
		obs   map[string]string
		state string // directory holding a copy of the state file after this command
	}
	want := map[int]bool{}
	for _, k := range sc.Points {
		for j := k; j <= k+sc.Cont && j < len(sc.History); j++ {
			want[j] = true
		}
	}
	// ---- original: run the whole history, observing after every command that matters ----
	wa := NewWorld(t, WorldOpt{TLSListener: true})
	stages := make([]stage, len(sc.History))
	flapping := len(sc.Flaps) > 0
	flapped := sc.flapped()
	ha := &c11Health{}
	for tn := range flapped {
		wa.AddTarget(tn, ha.probe(tn))
	}
	for i, c := range sc.History {
		if flapping && ha.set(sc.downAt(i)) {
			time.Sleep(c11Settle)
		}
		rec := c.Exec(wa, wa.Router)
		stages[i].rec = *rec
		if rec.Panic != "" {
			run.Violate("panic-original:"+c.Kind, "command panicked on the original proxy: "+rec.Panic, sc, wa.Trace(100))
			wa.Close()
			return
		}
		if want[i] {
			t0 := wa.Now()
			stages[i].obs = Observe(wa, wa.Primary(), fmt.Sprintf("a%d", i), true)
			if flapping {
				for k, v := range c11Spread(wa, wa.Primary(), fmt.Sprintf("a%d", i)) {
					stages[i].obs[k] = v
				}
			}
			time.Sleep(4 * time.Second)
			for k, v := range probeView(wa, t0, wa.Now()) {
				stages[i].obs[k] = v
			}
			stages[i].state = wa.CopyState()
		}
	}
	wa.Close()
	// ---- restored, at each restart point ----
	for _, k := range sc.Points {
		wb := NewWorld(t, WorldOpt{TLSListener: true, StateDir: stages[k].state})
		fail := func(sig, format string, a ...any) {
			run.Violate(sig, fmt.Sprintf(format, a...), map[string]any{"scenario": sc, "restart_after": k}, func() []string { return wb.Trace(150) })
		}
		// every other restart finds what a kill during a later snapshot write leaves next to the
		// state file: the temporary file of that write, empty or cut short. The state file itself is
		// the complete snapshot of the last command that returned - that is what is restored.
		if (sc.Idx+k)%2 == 1 {
			if b, err := os.ReadFile(wb.StatePath); err == nil {
				cut := [][]byte{{}, b[:len(b)/2], b[:len(b)-1]}[(sc.Idx/2+k)%3]
				os.WriteFile(wb.StatePath+".tmp", cut, 0o644)
				run.Count("restarts_with_a_leftover_temporary_snapshot", 1)
			}
		}
		// the fake network must know every target named so far
		hb := &c11Health{}
		hb.set(sc.downAt(k)) // the outages in progress go on across the restart
		for _, c := range sc.History {
			for _, tn := range c.Targets {
				if wb.Target(tn) == nil {
					if flapped[tn] {
						wb.AddTarget(tn, hb.probe(tn))
					} else {
						wb.AddTarget(tn, nil)
					}
				}
			}
		}
		ok := func() bool {
			var rerr error
			rec := wb.Cmd("restore", "", func() error { rerr = wb.Router.RestoreLastSavedState(); return rerr })
			if rec.Panic != "" || rec.Err != "" {
				fail("restore-failed", "RestoreLastSavedState after %d commands failed: %s %s", k+1, rec.Err, rec.Panic)
				return false
			}
			if flapping {
				// the licence: restored targets are presumed healthy until their first probe
				time.Sleep(c11Settle)
			}
			t0 := wb.Now()
			obs := Observe(wb, wb.Primary(), fmt.Sprintf("b%d", k), true)
			if flapping {
				for kk, v := range c11Spread(wb, wb.Primary(), fmt.Sprintf("b%d", k)) {
					obs[kk] = v
				}
			}
			time.Sleep(4 * time.Second)
			for kk, v := range probeView(wb, t0, wb.Now()) {
				obs[kk] = v
			}
			if d := DiffObs(stages[k].obs, obs); len(d) > 0 {
				kind := strings.SplitN(strings.SplitN(d[0], ":", 2)[0], " ", 2)[0]
				fail("differs-after-restore:"+kind, "restored after %d commands (last: %s): %d observables differ from the original, first: %s", k+1, sc.History[k].Kind, len(d), d[0])
				return false
			}
			run.Count("observables_compared", len(obs))
			// continuation: the history's own next commands on the restored proxy
			last := k
			for j := k + 1; j <= k+sc.Cont && j < len(sc.History); j++ {
				c := sc.History[j]
				if flapping && hb.set(sc.downAt(j)) {
					time.Sleep(c11Settle)
				}
				rec := c.Exec(wb, wb.Router)
				orig := stages[j].rec
				if rec.Panic != "" {
					fail("panic-after-restore:"+c.Kind, "command %s (continuation step %d after a restart behind command %d) panicked on the restored proxy: %s", c.Kind, j-k, k+1, rec.Panic)
					return false
				}
				if (rec.Err == "") != (orig.Err == "") || errClass(rec.Err) != errClass(orig.Err) {
					fail("result-differs-after-restore:"+c.Kind, "command %s %s: original returned %q, restored proxy returned %q", c.Kind, c.Svc, orig.Err, rec.Err)
					return false
				}
				last = j
				run.Count("continuation_commands", 1)
			}
			if last > k {
				t0 := wb.Now()
				obs2 := Observe(wb, wb.Primary(), fmt.Sprintf("c%d", k), true)
				if flapping {
					for kk, v := range c11Spread(wb, wb.Primary(), fmt.Sprintf("c%d", k)) {
						obs2[kk] = v
					}
				}
				time.Sleep(4 * time.Second)
				for kk, v := range probeView(wb, t0, wb.Now()) {
					obs2[kk] = v
				}
				if d := DiffObs(stages[last].obs, obs2); len(d) > 0 {
					kind := strings.SplitN(strings.SplitN(d[0], ":", 2)[0], " ", 2)[0]
					fail("differs-after-continuation:"+kind, "restart behind command %d, then %d more commands: %d observables differ from the original, first: %s", k+1, last-k, len(d), d[0])
					return false
				}
			}
			return true
		}()
		wb.Close()
		if !ok {
			return
		}
		sf := stages[k].obs["statefile"]
		run.Count("restart_points", 1)
		for _, probe := range []string{`"allowlist":["`, `"state":1`, `"state":2`, `"rollout_targets":["`, `"tls_enabled":true`, `"strip_prefix":true`, `"buffer_requests":true`, `"error_page_path":"/`} {
			if strings.Contains(sf, probe) {
				run.Count("restart_points_with "+strings.Trim(probe, `":[/`), 1)
			}
		}
		run.Class(fmt.Sprintf("after=%s|next=%s|services=%d", sc.History[k].Kind, nextKind(sc.History, k), strings.Count(stages[k].obs["statefile"], `"name":`)))
		if flapping {
			// what the outages amounted to at this restart point: targets in service that were failing
			// their probes when the restored file was written / when the restart came, per slot, and
			// whether one of them recovered in the continuation
			atSave, atRestart := sc.downAt(k), sc.downAt(k)
			for j := k; j >= 0; j-- {
				if stages[j].rec.Err == "" {
					atSave = sc.downAt(j)
					break
				}
			}
			sa, sr := c11InService(sf, atSave)
			ra, rr := c11InService(sf, atRestart)
			recovers := false
			for j := k + 1; j <= k+sc.Cont && j < len(sc.History); j++ {
				now := sc.downAt(j)
				for tn := range atRestart {
					if _, still := now[tn]; !still {
						recovers = true
					}
				}
			}
			run.Count("restart_points_of_histories_with_target_outages", 1)
			if sa+sr > 0 {
				run.Count("restart_points_behind_a_snapshot_written_with_an_unhealthy_target_in_service", 1)
			}
			if ra+rr > 0 {
				run.Count("restart_points_with_an_unhealthy_target_in_service", 1)
				if recovers {
					run.Count("restart_points_with_an_unhealthy_target_that_recovers_in_the_continuation", 1)
				}
			}
			run.Class(fmt.Sprintf("outage|after=%s|saved_unhealthy=active:%d,rollout:%d|unhealthy_at_restart=active:%d,rollout:%d|recovers_after=%v",
				sc.History[k].Kind, min(sa, 2), min(sr, 2), min(ra, 2), min(rr, 2), recovers))
		}
	}
	run.Sample(map[string]any{"history_kinds": kinds(sc.History), "restart_after": sc.Points, "continuation": sc.Cont})
}

func errClass(e string) string {
	if i := strings.Index(e, " ("); i > 0 {
		return e[:i]
	}
	return e
}

func kinds(h []Cmd) []string {
	var out []string
	for _, c := range h {
		out = append(out, c.Kind+":"+c.Svc)
	}
	return out
}

func nextKind(h []Cmd, k int) string {
	if k+1 < len(h) {
		return h[k+1].Kind
	}
	return "-"
}
