package verifharness

// C11 A restart changes nothing observable: original vs restored, then the same continuation.

import (
	"fmt"
	"math/rand/v2"
	"os"
	"sort"
	"strings"
	"testing"
	"testing/synctest"
	"time"
)

type c11Scenario struct {
	Idx     int   `json:"idx"`
	History []Cmd `json:"history"`
	Points  []int `json:"restart_after"` // restart after command index k (0-based)
	Cont    int   `json:"continuation_len"`
}

func c11Gen(rng *rand.Rand, idx int, thorough bool) c11Scenario {
	sc := c11Scenario{Idx: idx, Cont: 1 + rng.IntN(8)}
	g := NewCmdGen(rng)
	n := 1 + rng.IntN(15)
	if idx%4 == 2 {
		// skeleton aimed at the two sides of a service having different target options: deploy,
		// rollout deploy, split, then a redeploy that changes exactly one option; restart anywhere
		d := g.Deploy("s0")
		d.Hosts, d.TLS, d.Prefixes = []string{"h0.example"}, "", nil
		g.last["s0"] = d
		g.exists["s0"], g.rollout["s0"] = true, true
		sc.History = append(sc.History, d,
			Cmd{Kind: "rollout-deploy", Svc: "s0", Targets: g.targets("s0", "r"), DeployTO: 5 * time.Second, DrainTO: time.Second},
			Cmd{Kind: "rollout-set", Svc: "s0", Pct: pick(rng, []int{100, 100, 0}), Allow: []string{"u1", "alpha"}},
			g.Tweak("s0"))
		n = len(sc.History) + rng.IntN(4)
	}
	if idx%8 == 4 {
		// skeleton: a static-certificate root service on a wildcard host and a sub-path service on
		// the same host (which inherits TLS and is saved that way)
		root := g.Deploy("s0")
		root.Hosts, root.Prefixes, root.TLS = []string{"*.wild.example"}, nil, pick(rng, []string{"static", "static-noredirect"})
		sub := g.Deploy("s1")
		sub.Hosts, sub.Prefixes, sub.TLS = []string{"*.wild.example"}, []string{"/api"}, ""
		g.last["s0"], g.last["s1"] = root, sub
		g.exists["s0"], g.exists["s1"] = true, true
		if rng.IntN(2) == 0 {
			root, sub = sub, root
		}
		sc.History = append(sc.History, root, sub)
		n = len(sc.History) + rng.IntN(4)
	}
	for i := len(sc.History); i < n; i++ {
		c := g.Next()
		if i == 0 {
			c = g.Deploy("s0")
			g.exists["s0"] = true
		}
		sc.History = append(sc.History, c)
	}
	n = len(sc.History)
	if thorough {
		for k := 0; k < n; k++ {
			sc.Points = append(sc.Points, k)
		}
	} else {
		seen := map[int]bool{}
		for _, k := range []int{n - 1, rng.IntN(n), rng.IntN(n)} {
			if !seen[k] {
				seen[k] = true
				sc.Points = append(sc.Points, k)
			}
		}
		sort.Ints(sc.Points)
	}
	return sc
}

func TestC11(t *testing.T) {
	run := NewRun(t, "C11")
	defer run.Finish()
	n := run.N(160, 4000)
	for i := 0; i < n; i++ {
		sc := c11Gen(run.Rand(i), i, run.Thorough())
		if !run.Mine(i, sc) {
			continue
		}
		synctest.Test(t, func(t *testing.T) { c11Run(t, run, sc) })
	}
	// "any sequence of commands" includes commands that overlap: the file a restart would read once
	// all of them have returned must restore the configuration then in force (the overlap scenarios
	// of C12, which place the snapshot steps of two commands between each other)
	for k := 0; k < run.N(12, 400); k++ {
		sc := c12Gen(run.Rand(n+k), 4*k+3, 1<<30, 0, 0)
		if !run.Mine(n+k, sc) {
			continue
		}
		synctest.Test(t, func(t *testing.T) { c12Sim(t, run, sc) })
	}
	// ... and sequences in which one save failed (the temporary path was unusable for a while) and
	// the operator repeated the command afterwards: the file a restart reads is current again
	for k := 0; k < run.N(24, 600); k++ {
		sc := c12Gen(run.Rand(n+1000+k), 4*k+1, 1<<30, 0, 0)
		if len(sc.History) > 1 {
			last := &sc.History[len(sc.History)-1]
			*last = Cmd{Kind: pick(run.Rand(n+2000+k), []string{"stop", "pause", "stop"}), Svc: "s0", DrainTO: time.Second, MaxPause: 700 * time.Millisecond, Msg: "closed for the evening"}
		}
		if !run.Mine(n+1000+k, sc) {
			continue
		}
		synctest.Test(t, func(t *testing.T) { c12Sim(t, run, sc) })
	}
}

// probeView: what the targets see of the health-check settings (path and cadence), per target,
// over the probes that started in [from, to).
func probeView(w *World, from, to time.Duration) map[string]string {
	out := map[string]string{}
	w.mu.Lock()
	tg := make([]*FakeTarget, 0, len(w.Targets))
	for _, t := range w.Targets {
		tg = append(tg, t)
	}
	w.mu.Unlock()
	for _, ft := range tg {
		var starts []time.Duration
		path := ""
		for _, p := range ft.ProbeLog() {
			if p.Start >= from && p.Start < to {
				starts = append(starts, p.Start)
				path = p.Path
			}
		}
		if len(starts) < 2 {
			continue
		}
		gap := (starts[len(starts)-1] - starts[0]) / time.Duration(len(starts)-1)
		out["probe/"+ft.Name] = fmt.Sprintf("path=%s interval=%v", path, gap.Round(100*time.Millisecond))
	}
	return out
}

func c11Run(t *testing.T, run *Run, sc c11Scenario) {
	run.Eval()
	type stage struct {
		rec   CmdRec
		obs   map[string]string
		state string // directory holding a copy of the state file after this command
	}
	want := map[int]bool{}
	for _, k := range sc.Points {
		for j := k; j <= k+sc.Cont && j < len(sc.History); j++ {
			want[j] = true
		}
	}
	// ---- original: run the whole history, observing after every command that matters ----
	wa := NewWorld(t, WorldOpt{TLSListener: true})
	stages := make([]stage, len(sc.History))
	for i, c := range sc.History {
		rec := c.Exec(wa, wa.Router)
		stages[i].rec = *rec
		if rec.Panic != "" {
			run.Violate("panic-original:"+c.Kind, "command panicked on the original proxy: "+rec.Panic, sc, wa.Trace(100))
			wa.Close()
			return
		}
		if want[i] {
			t0 := wa.Now()
			stages[i].obs = Observe(wa, wa.Primary(), fmt.Sprintf("a%d", i), true)
			time.Sleep(4 * time.Second)
			for k, v := range probeView(wa, t0, wa.Now()) {
				stages[i].obs[k] = v
			}
			stages[i].state = wa.CopyState()
		}
	}
	wa.Close()
	// ---- restored, at each restart point ----
	for _, k := range sc.Points {
		wb := NewWorld(t, WorldOpt{TLSListener: true, StateDir: stages[k].state})
		fail := func(sig, format string, a ...any) {
			run.Violate(sig, fmt.Sprintf(format, a...), map[string]any{"scenario": sc, "restart_after": k}, func() []string { return wb.Trace(150) })
		}
		// every other restart finds what a kill during a later snapshot write leaves next to the
		// state file: the temporary file of that write, empty or cut short. The state file itself is
		// the complete snapshot of the last command that returned - that is what is restored.
		if (sc.Idx+k)%2 == 1 {
			if b, err := os.ReadFile(wb.StatePath); err == nil {
				cut := [][]byte{{}, b[:len(b)/2], b[:len(b)-1]}[(sc.Idx/2+k)%3]
				os.WriteFile(wb.StatePath+".tmp", cut, 0o644)
				run.Count("restarts_with_a_leftover_temporary_snapshot", 1)
			}
		}
		// the fake network must know every target named so far
		for _, c := range sc.History {
			for _, tn := range c.Targets {
				if wb.Target(tn) == nil {
					wb.AddTarget(tn, nil)
				}
			}
		}
		ok := func() bool {
			var rerr error
			rec := wb.Cmd("restore", "", func() error { rerr = wb.Router.RestoreLastSavedState(); return rerr })
			if rec.Panic != "" || rec.Err != "" {
				fail("restore-failed", "RestoreLastSavedState after %d commands failed: %s %s", k+1, rec.Err, rec.Panic)
				return false
			}
			t0 := wb.Now()
			obs := Observe(wb, wb.Primary(), fmt.Sprintf("b%d", k), true)
			time.Sleep(4 * time.Second)
			for kk, v := range probeView(wb, t0, wb.Now()) {
				obs[kk] = v
			}
			if d := DiffObs(stages[k].obs, obs); len(d) > 0 {
				kind := strings.SplitN(strings.SplitN(d[0], ":", 2)[0], " ", 2)[0]
				fail("differs-after-restore:"+kind, "restored after %d commands (last: %s): %d observables differ from the original, first: %s", k+1, sc.History[k].Kind, len(d), d[0])
				return false
			}
			run.Count("observables_compared", len(obs))
			// continuation: the history's own next commands on the restored proxy
			last := k
			for j := k + 1; j <= k+sc.Cont && j < len(sc.History); j++ {
				c := sc.History[j]
				rec := c.Exec(wb, wb.Router)
				orig := stages[j].rec
				if rec.Panic != "" {
					fail("panic-after-restore:"+c.Kind, "command %s (continuation step %d after a restart behind command %d) panicked on the restored proxy: %s", c.Kind, j-k, k+1, rec.Panic)
					return false
				}
				if (rec.Err == "") != (orig.Err == "") || errClass(rec.Err) != errClass(orig.Err) {
					fail("result-differs-after-restore:"+c.Kind, "command %s %s: original returned %q, restored proxy returned %q", c.Kind, c.Svc, orig.Err, rec.Err)
					return false
				}
				last = j
				run.Count("continuation_commands", 1)
			}
			if last > k {
				t0 := wb.Now()
				obs2 := Observe(wb, wb.Primary(), fmt.Sprintf("c%d", k), true)
				time.Sleep(4 * time.Second)
				for kk, v := range probeView(wb, t0, wb.Now()) {
					obs2[kk] = v
				}
				if d := DiffObs(stages[last].obs, obs2); len(d) > 0 {
					kind := strings.SplitN(strings.SplitN(d[0], ":", 2)[0], " ", 2)[0]
					fail("differs-after-continuation:"+kind, "restart behind command %d, then %d more commands: %d observables differ from the original, first: %s", k+1, last-k, len(d), d[0])
					return false
				}
			}
			return true
		}()
		wb.Close()
		if !ok {
			return
		}
		sf := stages[k].obs["statefile"]
		run.Count("restart_points", 1)
		for _, probe := range []string{`"allowlist":["`, `"state":1`, `"state":2`, `"rollout_targets":["`, `"tls_enabled":true`, `"strip_prefix":true`, `"buffer_requests":true`, `"error_page_path":"/`} {
			if strings.Contains(sf, probe) {
				run.Count("restart_points_with "+strings.Trim(probe, `":[/`), 1)
			}
		}
		run.Class(fmt.Sprintf("after=%s|next=%s|services=%d", sc.History[k].Kind, nextKind(sc.History, k), strings.Count(stages[k].obs["statefile"], `"name":`)))
	}
	run.Sample(map[string]any{"history_kinds": kinds(sc.History), "restart_after": sc.Points, "continuation": sc.Cont})
}

func errClass(e string) string {
	if i := strings.Index(e, " ("); i > 0 {
		return e[:i]
	}
	return e
}

func kinds(h []Cmd) []string {
	var out []string
	for _, c := range h {
		out = append(out, c.Kind+":"+c.Svc)
	}
	return out
}

func nextKind(h []Cmd, k int) string {
	if k+1 < len(h) {
		return h[k+1].Kind
	}
	return "-"
}
